#include "vsched.h"
#include <dlfcn.h>
#include <errno.h>
#include <pthread.h>
#include <semaphore.h>
#include <time.h>
#include <unistd.h>
#include <cstdio>
#include <cstdlib>
#include <deque>
#include <map>

namespace vsched {
struct Th {
    int id; sem_t sem; St st = RUNNABLE; const void *obj = nullptr; const void *cvm = nullptr; bool signalled = false;
    pthread_t real{}; void *(*fn)(void *) = nullptr; void *arg = nullptr; void *ret = nullptr;
    std::function<bool()> pred;
};
static std::vector<Th *> ths;
static int cur = -1;
static bool on = false;
static const uint8_t *ch = nullptr;
static size_t chn = 0, chi = 0, nsw = 0, npts = 0;
static size_t nspurious = 0;
static int sched_mode = 0;                                 // 0: explicit choice vector, 1: PCT-style priorities
static std::vector<long> prio;                             // PCT: priority per thread id (higher runs first)
static std::vector<size_t> change_at;                      // PCT: scheduling-point numbers at which the running thread is demoted
static long long vclock_ns = 0;                           // virtual wall clock (see clock_gettime below)
static std::vector<uint8_t> wid;                          // number of alternatives at every consumed choice
static std::map<const void *, int> owner;                // mutex -> tid (absent = free)
static std::map<const void *, std::deque<int>> waiters;  // cv -> tids
static thread_local Th *me = nullptr;
void (*on_deadlock)() = nullptr;
void (*on_park)(int, const void *) = nullptr;
void (*on_wake)(int, const void *) = nullptr;
void (*on_switch)(int, int) = nullptr;
void (*on_spawn)(int, int) = nullptr;
void (*on_step_limit)() = nullptr;
size_t step_limit = 200000;

template <class F> static F real(const char *n) { return (F)dlsym(RTLD_NEXT, n); }
static int fail_creates = 0;   // injected pthread_create failures still to deliver
void fail_next_thread_creations(int k) { fail_creates = k; }
extern "C" int __interceptor_pthread_create(pthread_t *, const pthread_attr_t *, void *(*)(void *), void *) __attribute__((weak));
extern "C" int __interceptor_pthread_join(pthread_t, void **) __attribute__((weak));

static bool enabled(Th *t) {
    switch (t->st) {
    case RUNNABLE: return true;
    case B_MUTEX: return owner.find(t->obj) == owner.end();
    case B_CVT: return true;   // a timed wait can always time out
    case B_JOIN: return ((Th *)t->obj)->st == FINISHED;
    case B_PRED: return t->pred && t->pred();
    default: return false;
    }
}
[[noreturn]] static void deadlock() {
    if (on_deadlock) on_deadlock();
    fprintf(stderr, "vsched: DEADLOCK (no enabled thread)\n");
    _exit(3);
}
static uint8_t next_choice() { return chi < chn ? ch[chi++] : 0; }

static int pick(bool self_ok) {
    if (++npts > step_limit) {
        if (on_step_limit) on_step_limit();
        fprintf(stderr, "vsched: step limit\n");
        _exit(4);
    }
    int en[64]; int n = 0;
    if (self_ok) en[n++] = cur;
    for (Th *t : ths) if (t->id != cur && n < 64 && enabled(t)) en[n++] = t->id;
    if (n == 0) deadlock();
    if (sched_mode == 1) {
        // PCT (Burckhardt et al.): random priorities, the highest-priority enabled thread runs; at d pre-chosen scheduling
        // points the running thread is demoted below everybody else.  All of it is derived from the case's bytes.
        for (size_t k = 0; k < change_at.size(); ++k) if (change_at[k] == npts && cur >= 0 && (size_t)cur < prio.size()) prio[(size_t)cur] = -(long)(k + 1);
        int best = en[0];
        for (int i = 1; i < n; ++i) { size_t a = (size_t)en[i], b = (size_t)best; long pa = a < prio.size() ? prio[a] : 0, pb = b < prio.size() ? prio[b] : 0; if (pa > pb) best = en[i]; }
        return best;
    }
    if (n == 1) return en[0];
    wid.push_back((uint8_t)n);
    uint8_t c = next_choice();
    if (c & 0x80) {
        // spurious wake-up (permitted by POSIX and C++): one thread parked on a condition variable returns from its wait
        // without having been signalled; which one is taken from the upper bits of the same byte
        std::vector<Th *> parked;
        for (Th *t : ths) if (t->st == B_CV) parked.push_back(t);
        if (!parked.empty()) {
            Th *t = parked[(size_t)((c >> 3) & 0xf) % parked.size()];
            auto &w = waiters[t->obj];
            for (size_t i = 0; i < w.size(); ++i) if (w[i] == t->id) { w.erase(w.begin() + (long)i); break; }
            const void *cvp = t->obj;
            t->signalled = true; t->st = B_MUTEX; t->obj = t->cvm; ++nspurious;
            if (on_wake) on_wake(t->id, cvp);
        }
        c &= 0x07;
    }
    return en[c % n];
}
static void switch_to(int nxt, bool park_self) {
    if (nxt == cur) return;
    Th *m = ths[cur];
    int from = cur;
    cur = nxt; ++nsw;
    if (on_switch) on_switch(from, nxt);
    sem_post(&ths[nxt]->sem);
    if (park_self) { while (sem_wait(&m->sem) != 0 && errno == EINTR) {} }
}
static void point() { switch_to(pick(true), true); }
static void block() { switch_to(pick(false), true); }

static long pct_prio(int tid) {   // distinct pseudo-random priorities from the schedule bytes
    uint64_t h = 1469598103934665603ull;
    for (size_t i = 0; i < chn && i < 16; ++i) { h ^= ch[i]; h *= 1099511628211ull; }
    h ^= (uint64_t)(tid + 1) * 0x9E3779B97F4A7C15ull; h ^= h >> 29; h *= 0xBF58476D1CE4E5B9ull; h ^= h >> 32;
    return (long)(h % 1000000) + 10;
}
void set_mode_pct(bool on_) { sched_mode = on_ ? 1 : 0; }
void begin(const uint8_t *c, size_t n) {
    ths.clear(); owner.clear(); waiters.clear();
    ch = c; chn = n; chi = 0; nsw = 0; npts = 0; nspurious = 0; wid.clear();
    vclock_ns = 1700000000LL * 1000000000LL;
    Th *t = new Th; t->id = 0; sem_init(&t->sem, 0, 0); t->real = pthread_self();
    ths.push_back(t); me = t; cur = 0;
    prio.clear(); change_at.clear();
    if (sched_mode == 1) {
        prio.push_back(pct_prio(0));
        // up to 3 change points among the first ~120 scheduling points, taken from bytes 16..
        for (size_t k = 0; k < 3 && 16 + k < chn; ++k) change_at.push_back((size_t)ch[16 + k] % 120 + 1);
    }
    on = true;
}
void end() { on = false; }
bool active() { return on && me; }
void yield() { if (on && me) point(); }
void wait_until(std::function<bool()> pred) {
    if (!(on && me)) return;
    point();
    while (!pred()) { me->st = B_PRED; me->pred = pred; block(); }
    me->st = RUNNABLE; me->pred = nullptr;
}
int self() { return (on && me) ? me->id : -1; }
int nthreads() { return (int)ths.size(); }
St state(int tid) { return ths[tid]->st; }
const void *blocked_on(int tid) { return ths[tid]->obj; }
size_t choices_used() { return chi; }
size_t switches() { return nsw; }
size_t points() { return npts; }
size_t spurious_wakeups() { return nspurious; }
void advance_time_ms(long ms) { vclock_ns += (long long)ms * 1000000LL; }
const std::vector<uint8_t> &widths() { return wid; }

static void *tramp(void *p) {
    Th *t = (Th *)p; me = t;
    while (sem_wait(&t->sem) != 0 && errno == EINTR) {}
    t->ret = t->fn(t->arg);
    t->st = FINISHED;
    switch_to(pick(false), false);
    return t->ret;
}

static void lock_mutex(pthread_mutex_t *m) {
    while (owner.count(m)) { me->st = B_MUTEX; me->obj = m; block(); }
    me->st = RUNNABLE; me->obj = nullptr; owner[m] = me->id;
}
static int cond_wait_impl(pthread_cond_t *c, pthread_mutex_t *m, bool timed) {
    point();                       // window: predicate evaluated, not yet blocked
    owner.erase(m);
    me->st = timed ? B_CVT : B_CV; me->obj = c; me->cvm = m; me->signalled = false;
    waiters[c].push_back(me->id);
    if (on_park) on_park(me->id, c);
    block();
    bool sig = me->signalled;
    if (!sig) {                    // timed out: leave the waiter list
        auto &w = waiters[c];
        for (size_t i = 0; i < w.size(); ++i) if (w[i] == me->id) { w.erase(w.begin() + (long)i); break; }
    }
    lock_mutex(m);
    return sig ? 0 : ETIMEDOUT;
}
} // namespace vsched

using namespace vsched;
#define PASS(name, sig, ...) do { static auto f = real<int(*) sig>(name); return f(__VA_ARGS__); } while (0)

extern "C" {
int pthread_mutex_lock(pthread_mutex_t *m) {
    if (!on || !me) PASS("pthread_mutex_lock", (pthread_mutex_t *), m);
    point();
    lock_mutex(m);
    return 0;
}
int pthread_mutex_trylock(pthread_mutex_t *m) {
    if (!on || !me) PASS("pthread_mutex_trylock", (pthread_mutex_t *), m);
    point();
    if (owner.count(m)) return EBUSY;
    owner[m] = me->id;
    return 0;
}
int pthread_mutex_unlock(pthread_mutex_t *m) {
    if (!on || !me) PASS("pthread_mutex_unlock", (pthread_mutex_t *), m);
    owner.erase(m);
    point();
    return 0;
}
int pthread_cond_wait(pthread_cond_t *c, pthread_mutex_t *m) {
    if (!on || !me) PASS("pthread_cond_wait", (pthread_cond_t *, pthread_mutex_t *), c, m);
    return cond_wait_impl(c, m, false);
}
int pthread_cond_timedwait(pthread_cond_t *c, pthread_mutex_t *m, const struct timespec *ts) {
    if (!on || !me) PASS("pthread_cond_timedwait", (pthread_cond_t *, pthread_mutex_t *, const struct timespec *), c, m, ts);
    return cond_wait_impl(c, m, true);
}
int pthread_cond_clockwait(pthread_cond_t *c, pthread_mutex_t *m, clockid_t clk, const struct timespec *ts) {
    if (!on || !me) PASS("pthread_cond_clockwait", (pthread_cond_t *, pthread_mutex_t *, clockid_t, const struct timespec *), c, m, clk, ts);
    return cond_wait_impl(c, m, true);
}
static void wake(pthread_cond_t *c, int id) {
    ths[id]->signalled = true; ths[id]->st = B_MUTEX; ths[id]->obj = ths[id]->cvm;
    if (on_wake) on_wake(id, c);
}
int pthread_cond_broadcast(pthread_cond_t *c) {
    if (!on || !me) PASS("pthread_cond_broadcast", (pthread_cond_t *), c);
    point();
    for (int id : waiters[c]) wake(c, id);
    waiters[c].clear();
    return 0;
}
int pthread_cond_signal(pthread_cond_t *c) {
    if (!on || !me) PASS("pthread_cond_signal", (pthread_cond_t *), c);
    point();
    auto &w = waiters[c];
    if (!w.empty()) {
        if (w.size() > 1) wid.push_back((uint8_t)w.size());
        size_t k = w.size() > 1 ? next_choice() % w.size() : 0;
        int id = w[k]; w.erase(w.begin() + (long)k);
        wake(c, id);
    }
    return 0;
}
int pthread_create(pthread_t *t, const pthread_attr_t *a, void *(*fn)(void *), void *arg) {
    auto rc = __interceptor_pthread_create ? __interceptor_pthread_create
                                           : real<int (*)(pthread_t *, const pthread_attr_t *, void *(*)(void *), void *)>("pthread_create");
    if (!on || !me) return rc(t, a, fn, arg);
    if (fail_creates > 0) { --fail_creates; point(); return EAGAIN; }   // injected fault: no thread is created
    Th *n = new Th; n->id = (int)ths.size(); sem_init(&n->sem, 0, 0); n->fn = fn; n->arg = arg;
    ths.push_back(n);
    if (sched_mode == 1) { prio.resize(ths.size(), 0); prio[(size_t)n->id] = pct_prio(n->id); }
    int r = rc(&n->real, a, tramp, n);
    *t = n->real;
    if (on_spawn) on_spawn(me->id, n->id);
    point();
    return r;
}
int pthread_join(pthread_t th, void **ret) {
    auto rj = __interceptor_pthread_join ? __interceptor_pthread_join : real<int (*)(pthread_t, void **)>("pthread_join");
    if (!on || !me) return rj(th, ret);
    Th *tg = nullptr;
    for (Th *x : ths) if (x->id != 0 && pthread_equal(x->real, th)) tg = x;
    if (!tg) return rj(th, ret);
    point();
    while (tg->st != FINISHED) { me->st = B_JOIN; me->obj = tg; block(); }
    me->st = RUNNABLE; me->obj = nullptr;
    return rj(th, ret);
}
// Inside a run the wall clock is virtual: it only moves when the harness says so (vsched::advance_time_ms).  ThreadPool's
// expiry logic (std::chrono::system_clock -> clock_gettime) thereby becomes a pure function of the case.
int clock_gettime(clockid_t id, struct timespec *ts) {
    if (!on || !me) { static auto f = real<int (*)(clockid_t, struct timespec *)>("clock_gettime"); return f(id, ts); }
    ts->tv_sec = (time_t)(vclock_ns / 1000000000LL); ts->tv_nsec = (long)(vclock_ns % 1000000000LL);
    return 0;
}
int sched_yield(void) {
    if (!on || !me) PASS("sched_yield", (void));
    point();
    return 0;
}
}
