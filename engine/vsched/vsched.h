// Controlled scheduler (DESIGN.md §3).  The executable that links vsched.cpp defines the pthread
// synchronisation API itself, so std::mutex / std::condition_variable / std::thread used inside the
// unmodified tulz sources run under a cooperative scheduler: exactly one thread runs at a time and the
// next thread is picked at every synchronisation operation from a generated choice vector.
#pragma once
#include <cstddef>
#include <cstdint>
#include <functional>
#include <vector>

namespace vsched {
enum St { RUNNABLE, B_MUTEX, B_CV, B_CVT, B_JOIN, B_PRED, FINISHED };

void set_mode_pct(bool on);                       // call before begin(): schedule bytes seed PCT priorities / change points instead
void begin(const uint8_t *choices, size_t n);   // the calling thread becomes thread 0
void end();
bool active();

void yield();                                    // plain scheduling point (harness code)
void wait_until(std::function<bool()> pred);     // harness-level blocking; participates in deadlock detection

int self();                                      // -1 outside a run
int nthreads();
St state(int tid);
const void *blocked_on(int tid);                 // mutex / condvar / joined thread record
size_t choices_used();
size_t switches();
void fail_next_thread_creations(int k);          // fault injection: the next k pthread_create calls inside the run fail with EAGAIN
void advance_time_ms(long ms);                    // the wall clock seen by the code under test is virtual inside a run
size_t points();
size_t spurious_wakeups();                       // schedule bytes >= 128 additionally wake one parked thread without a signal
const std::vector<uint8_t> &widths();             // alternatives available at each consumed choice (for systematic enumeration)

// hooks (all optional).  on_deadlock must not return normally if it wants to report; default prints and _exit(3)
extern void (*on_deadlock)();
extern void (*on_park)(int tid, const void *cv);        // thread is about to park on a condition variable
extern void (*on_wake)(int tid, const void *cv);        // a parked thread was signalled (moved to the mutex queue)
extern void (*on_switch)(int from, int to);             // control passes to another thread
extern void (*on_spawn)(int parent, int child);
extern void (*on_step_limit)();
extern size_t step_limit;                                // scheduling points before on_step_limit fires (default 200000)
} // namespace vsched
