"""Build logic for the verification binaries.

driver side  (rapidcheck, no tulz headers)  -> build/drv/*.o     built by setup, rebuilt when its sources change
executor side (tulz headers/sources, sanitizers) -> build/<repokey>/<group>/   rebuilt when a content hash over
              <repo>/include, <repo>/src, the executor sources and the flags differs from the stamp.
Content hashes, not mtimes, decide; flock on the build directory makes concurrent check commands safe.
"""
import fcntl
import hashlib
import os
import subprocess
import sys
from concurrent.futures import ThreadPoolExecutor

VERIF = os.path.dirname(os.path.dirname(os.path.abspath(__file__)))
GUARD = "TULZ_VERIF"

# nonnull-attribute is off: memcpy(dst, nullptr, 0) (copying an empty tulz::Array) is flagged by it although no listed
# property forbids it and every libc defines it; keeping it on would be an alarm the properties do not ask for.
ASAN_UBSAN = ["-fsanitize=address,undefined", "-fno-sanitize=nonnull-attribute", "-fno-sanitize-recover=undefined", "-fno-omit-frame-pointer"]
COMMON = ["-std=c++20", "-g", "-O1", "-D" + GUARD, "-Wno-unused-value"]

R = "src/observer/routing/"
GROUPS = {
    "ring":    dict(props=["C04", "C09"], cxx="clang++", san=ASAN_UBSAN, tulz=[], vsched=False),
    "array":   dict(props=["C14"], cxx="clang++", san=ASAN_UBSAN, tulz=[], vsched=False),
    "subject": dict(props=["C05", "C10", "C16"], cxx="g++", san=ASAN_UBSAN, tulz=[], vsched=False),
    "router":  dict(props=["C06", "C13"], cxx="g++", san=ASAN_UBSAN + ["-fno-sanitize=vptr"], vsched=False,
                    tulz=[R + "SubjectRouter.cpp", R + "RoutingLevelView.cpp", R + "RoutingKeyBuilder.cpp", R + "RoutingKey.cpp",
                          "src/threading/rwp/Resource.cpp"]),
    "rwlock":  dict(props=["C01", "C02", "C03", "C12"], cxx="clang++", san=ASAN_UBSAN, vsched=True,
                    tulz=["src/threading/rwp/Resource.cpp"]),
    "crouter": dict(props=["C11"], cxx="g++", san=ASAN_UBSAN + ["-fno-sanitize=vptr"], vsched=True,
                    tulz=[R + "SubjectRouter.cpp", R + "RoutingLevelView.cpp", R + "RoutingKeyBuilder.cpp", R + "RoutingKey.cpp",
                          "src/threading/rwp/Resource.cpp"]),
    "pool":    dict(props=["C07", "C08", "C20"], cxx="clang++", san=ASAN_UBSAN, vsched=True,
                    tulz=["src/threading/ThreadPool.cpp", "src/threading/Thread.cpp", "src/threading/Runnable.cpp"]),
    "race":    dict(props=["C15"], cxx="g++", san=["-fsanitize=thread", "-fno-omit-frame-pointer"], vsched=False,
                    tulz=[R + "SubjectRouter.cpp", R + "RoutingLevelView.cpp", R + "RoutingKeyBuilder.cpp", R + "RoutingKey.cpp",
                          "src/threading/rwp/Resource.cpp", "src/threading/ThreadPool.cpp", "src/threading/Thread.cpp", "src/threading/Runnable.cpp"]),
    "fileio":  dict(props=["C17", "C18"], cxx="clang++", san=ASAN_UBSAN, vsched=False,
                    tulz=["src/File.cpp", "src/Path.cpp", "src/DirectoryVisitor.cpp", "src/Exception.cpp"]),
    "locale":  dict(props=["C19"], cxx="clang++", san=ASAN_UBSAN, vsched=False, tulz=["src/LocaleInfo.cpp"]),
}
PROP_GROUP = {p: g for g, d in GROUPS.items() for p in d["props"]}


def sh(cmd, **kw):
    return subprocess.run(cmd, stdout=subprocess.PIPE, stderr=subprocess.STDOUT, text=True, **kw)


def file_hash(paths):
    h = hashlib.sha256()
    for p in sorted(paths):
        h.update(p.encode())
        try:
            with open(p, "rb") as f:
                h.update(f.read())
        except OSError:
            h.update(b"<missing>")
    return h.hexdigest()


def tree_files(root, exts=(".h", ".hpp", ".cpp", ".c", ".inl")):
    out = []
    for base, _dirs, files in os.walk(root):
        for f in files:
            if f.endswith(exts):
                out.append(os.path.join(base, f))
    return out


def repo_key(repo):
    return hashlib.sha256(os.path.abspath(repo).encode()).hexdigest()[:12]


def compile_many(jobs):
    """jobs: list of (cmd, out). Runs in parallel; returns list of error strings."""
    errs = []

    def one(job):
        cmd, out = job
        os.makedirs(os.path.dirname(out), exist_ok=True)
        r = sh(cmd)
        if r.returncode != 0:
            return "FAILED: %s\n%s" % (" ".join(cmd), r.stdout[-6000:])
        return None

    with ThreadPoolExecutor(max_workers=16) as ex:
        for e in ex.map(one, jobs):
            if e:
                errs.append(e)
    return errs


class Lock:
    def __init__(self, path):
        os.makedirs(os.path.dirname(path), exist_ok=True)
        self.f = open(path, "w")

    def __enter__(self):
        fcntl.flock(self.f, fcntl.LOCK_EX)
        return self

    def __exit__(self, *a):
        fcntl.flock(self.f, fcntl.LOCK_UN)
        self.f.close()


def driver_sources(group):
    return ["engine/pbt/driver.cpp", "props/%s/gen.cpp" % group]


def build_driver(group, log=None):
    """Compile the rapidcheck side for a group (plain flags, no sanitizer). Returns object paths."""
    objs = []
    jobs = []
    deps = [os.path.join(VERIF, p) for p in ("engine/pbt/gen.h", "engine/common/case.h", "engine/common/exec.h")]
    for src in driver_sources(group):
        srcp = os.path.join(VERIF, src)
        obj = os.path.join(VERIF, "build", "drv", src.replace("/", "_") + ".o")
        stamp = obj + ".stamp"
        want = file_hash([srcp] + deps)
        have = open(stamp).read() if os.path.exists(stamp) and os.path.exists(obj) else ""
        objs.append(obj)
        if want != have:
            jobs.append((["clang++"] + COMMON + ["-I", VERIF, "-c", srcp, "-o", obj], obj, stamp, want))
    if jobs:
        if log:
            log("building driver objects for %s (%d TU)" % (group, len(jobs)))
        errs = compile_many([(j[0], j[1]) for j in jobs])
        if errs:
            raise RuntimeError("\n".join(errs))
        for _cmd, _obj, stamp, want in jobs:
            with open(stamp, "w") as f:
                f.write(want)
    return objs


def build_group(group, repo, log=None):
    """Build (if needed) and return the path of the executor+driver binary for a group."""
    g = GROUPS[group]
    repo = os.path.abspath(repo)
    bdir = os.path.join(VERIF, "build", repo_key(repo), group)
    os.makedirs(bdir, exist_ok=True)
    with Lock(os.path.join(VERIF, "build", ".lock." + group)):
        drv = build_driver(group, log)
        exec_srcs = ["props/%s/%s" % (group, f) for f in sorted(os.listdir(os.path.join(VERIF, "props", group)))
                     if f.endswith(".cpp") and f != "gen.cpp"] + ["engine/common/report.cpp", "engine/common/alloctrack.cpp"]
        if g["vsched"]:
            exec_srcs.append("engine/vsched/vsched.cpp")
        extra = [os.path.join(VERIF, "props", group, f) for f in os.listdir(os.path.join(VERIF, "props", group))
                 if f.endswith(".h")]
        eng_hdrs = tree_files(os.path.join(VERIF, "engine", "common")) + tree_files(os.path.join(VERIF, "engine", "vsched"))
        flags = COMMON + g["san"] + ["-I", os.path.join(repo, "include"), "-I", VERIF]
        inputs = tree_files(os.path.join(repo, "include")) + tree_files(os.path.join(repo, "src")) + \
            [os.path.join(VERIF, s) for s in exec_srcs] + extra + eng_hdrs + drv
        want = hashlib.sha256((file_hash(inputs) + " ".join(flags) + g["cxx"]).encode()).hexdigest()
        binp = os.path.join(bdir, "bin")
        stamp = os.path.join(bdir, "stamp")
        have = open(stamp).read() if os.path.exists(stamp) and os.path.exists(binp) else ""
        if want == have:
            return binp
        if log:
            log("building executor group %s from %s" % (group, repo))
        jobs, objs = [], []
        for s in exec_srcs:
            o = os.path.join(bdir, s.replace("/", "_") + ".o")
            jobs.append(([g["cxx"]] + flags + ["-c", os.path.join(VERIF, s), "-o", o], o))
            objs.append(o)
        for s in g["tulz"]:
            o = os.path.join(bdir, "tulz_" + s.replace("/", "_") + ".o")
            jobs.append(([g["cxx"]] + flags + ["-c", os.path.join(repo, s), "-o", o], o))
            objs.append(o)
        errs = compile_many(jobs)
        if errs:
            raise RuntimeError("\n".join(errs))
        link = [g["cxx"]] + g["san"] + objs + drv + ["-lrapidcheck", "-lpthread", "-ldl", "-o", binp]
        r = sh(link)
        if r.returncode != 0:
            raise RuntimeError("LINK FAILED: %s\n%s" % (" ".join(link), r.stdout[-6000:]))
        with open(stamp, "w") as f:
            f.write(want)
        return binp


FUZZ_GROUPS = {"ring": ["C04", "C09"], "array": ["C14"], "locale": ["C19"], "fileio": ["C17", "C18"]}   # clang-only, in-process resettable executors


def build_fuzz(group, repo, log=None):
    """libFuzzer variant of a group's executor (same exec sources, no rapidcheck driver)."""
    g = GROUPS[group]
    repo = os.path.abspath(repo)
    bdir = os.path.join(VERIF, "build", repo_key(repo), group + "-fuzz")
    os.makedirs(bdir, exist_ok=True)
    with Lock(os.path.join(VERIF, "build", ".lock." + group + "-fuzz")):
        srcs = ["props/%s/%s" % (group, f) for f in sorted(os.listdir(os.path.join(VERIF, "props", group)))
                if f.endswith(".cpp") and f != "gen.cpp"] + ["engine/common/report.cpp", "engine/common/alloctrack.cpp", "engine/fuzz/fuzz_main.cpp"]
        flags = COMMON + ["-fsanitize=fuzzer,address,undefined", "-fno-sanitize=nonnull-attribute", "-fno-sanitize-recover=undefined",
                          "-fno-omit-frame-pointer", "-I", os.path.join(repo, "include"), "-I", VERIF]
        inputs = tree_files(os.path.join(repo, "include")) + tree_files(os.path.join(repo, "src")) + [os.path.join(VERIF, s) for s in srcs] + \
            tree_files(os.path.join(VERIF, "engine", "common")) + tree_files(os.path.join(VERIF, "props", group))
        want = hashlib.sha256((file_hash(inputs) + " ".join(flags)).encode()).hexdigest()
        binp = os.path.join(bdir, "fuzz")
        stamp = os.path.join(bdir, "stamp")
        if os.path.exists(stamp) and os.path.exists(binp) and open(stamp).read() == want:
            return binp
        if log:
            log("building libFuzzer target for group %s from %s" % (group, repo))
        jobs, objs = [], []
        for s in srcs:
            o = os.path.join(bdir, s.replace("/", "_") + ".o")
            jobs.append((["clang++"] + flags + ["-c", os.path.join(VERIF, s), "-o", o], o)); objs.append(o)
        for s in g["tulz"]:
            o = os.path.join(bdir, "tulz_" + s.replace("/", "_") + ".o")
            jobs.append((["clang++"] + flags + ["-c", os.path.join(repo, s), "-o", o], o)); objs.append(o)
        errs = compile_many(jobs)
        if errs:
            raise RuntimeError("\n".join(errs))
        r = sh(["clang++", "-fsanitize=fuzzer,address,undefined"] + objs + ["-lpthread", "-ldl", "-o", binp])
        if r.returncode != 0:
            raise RuntimeError("LINK FAILED (fuzz %s)\n%s" % (group, r.stdout[-4000:]))
        with open(stamp, "w") as f:
            f.write(want)
        return binp


if __name__ == "__main__":
    # python3 engine/build.py setup [repo]   -> build every group
    repo = sys.argv[2] if len(sys.argv) > 2 else os.environ.get("VERIF_REPO", "/repo")
    ok = True
    groups = [g for g in GROUPS if os.path.exists(os.path.join(VERIF, "props", g, "exec.cpp"))]
    with ThreadPoolExecutor(max_workers=4) as ex:
        futs = {g: ex.submit(build_group, g, repo, lambda m: print("[build]", m, flush=True)) for g in groups}
        ffuts = {g: ex.submit(build_fuzz, g, repo, lambda m: print("[build]", m, flush=True)) for g in FUZZ_GROUPS if g in groups}
        for g, f in list(futs.items()) + [(g + "-fuzz", f) for g, f in ffuts.items()]:
            try:
                print("[build] %s -> %s" % (g, f.result()), flush=True)
            except Exception as e:  # noqa
                ok = False
                print("[build] %s FAILED\n%s" % (g, e), flush=True)
    sys.exit(0 if ok else 1)
