"""Per-property budgets (case counts and generated sizes, never wall-clock), non-triviality rules (as text for the
evidence; the predicate itself is evaluated by the executor) and assumptions."""

def B(qc, tc, **kw):
    q = dict(cases=qc); t = dict(cases=tc); q.update(kw); t.update(kw)
    return {"quick": q, "thorough": t}

BUDGET = {
    "C04": B(600, 12000),
    "C09": B(600, 12000),
}

RULE = {
    "C04": "rapidcheck generates operation histories (<=120 ops quick, <=400 thorough) over a pool of 4 RingBuffers of one element type "
           "(int | POD struct | lifetime-tracked class), both overwrite modes; operands are decoded interpretively so every op is valid. "
           "Oracle: std::deque + capacity model compared through the public API after every op. Non-trivial = a resize, copy or move executed "
           "on a buffer whose head index != 0 or whose contents wrap, or a pop/resize after an overwrite on the same buffer "
           "(layout derived from the model history). Distinct = distinct case text (hash).",
    "C09": "as C04 with the lifetime-tracked element type only. Oracle: lifetime registry (serial numbers: every reachable element is live, "
           "live set == reachable set after every op, nothing live at the end, no destructor on storage without an element, no double destroy) "
           "+ ASan + allocator-hook accounting (every block allocated inside a RingBuffer call is freed by the end of the case). Non-trivial = a shrinking resize that cuts >=1 element on a buffer "
           "with head != 0, or a copy assignment onto a non-empty buffer, or destruction of a wrapped buffer. Distinct = distinct case text.",
}

ASSUMPTIONS = {
    "C04": ["std::deque is a correct reference model", "element types are bitwise relocatable (as the quantifier requires)"],
    "C09": ["ASan/LSan report every out-of-bounds access / leaked block they observe", "moved-from shells left by pop_* are tolerated, as pinned by RingBufferEfficiencyTest"],
}
