"""Per-property budgets (case counts and generated sizes, never wall-clock), non-triviality rules (as text for the
evidence; the predicate itself is evaluated by the executor) and assumptions."""

def B(qc, tc, **kw):
    q = dict(cases=qc); t = dict(cases=tc); q.update(kw); t.update(kw)
    return {"quick": q, "thorough": t}

BUDGET = {
    "C04": B(2800, 16800),
    "C09": B(2800, 16800),
    "C01": B(3000, 8000, cpu_limit=120),
    "C02": B(3000, 8000, cpu_limit=120, foreign=["ASSERT:m_activeOp"]),
    "C03": B(2200, 13200, foreign=["ASSERT:m_activeOp"]),
    "C12": B(2400, 14400, cpu_limit=120, foreign=["ASSERT:m_activeOp"]),
    "C07": B(4500, 15000),
    "C08": B(4500, 15000),
    "C20": B(4500, 27000),
    "C15": B(450, 2700, nondeterministic=True, cpu_limit=120, max_shrink=150, wall_limit=20),
    "C11": B(3000, 15000),
    "C06": B(1800, 10800),
    "C13": B(1500, 9000),
    "C17": B(1200, 7200, cpu_limit=60),
    "C18": B(1200, 7200, cpu_limit=60),
    "C19": B(6000, 32000),
    "C14": B(3000, 11000),
    "C05": B(3200, 19200),
    "C10": B(6000, 30000),
    "C16": B(3600, 21600),
}

SCHED = ("Each case is a small concurrent program plus a schedule: the executor interposes the pthread API, runs exactly one thread at a time "
         "and picks the next thread at every synchronisation operation / harness yield from the generated choice vector "
         "(modes: empty, sparse with p in {1/8,1/4,1/2}, uniform). Distinct = distinct case text (program + schedule). ")

# libFuzzer second engine (thorough tier only): same case value, same executor, same oracle; runs (not seconds) bound it
FUZZ = {
    "C04": dict(group="ring", runs=60000, max_len=482, nkinds=21),
    "C09": dict(group="ring", runs=60000, max_len=482, nkinds=21),
    "C14": dict(group="array", runs=60000, max_len=322, nkinds=17),
    "C19": dict(group="locale", runs=120000, max_len=320, nkinds=0),
    "C18": dict(group="fileio", runs=25000, max_len=200, nkinds=0),   # raw path strings: d 0x00 n
    "C17": dict(group="fileio", runs=15000, max_len=1200, nkinds=-17),   # nkinds -17: the C17 layout (see fuzz_main.cpp)
}

# small-scope systematic enumeration (thorough tier only): every program of a small program space x every schedule with
# at most `preempt` non-default choices
ENUM = {
    "C01": dict(preempt=2, first=(64, 3)), "C02": dict(preempt=2, first=(64, 3)), "C03": dict(preempt=2), "C12": dict(preempt=2),
    "C07": dict(preempt=2, max_runs=60000), "C08": dict(preempt=2, max_runs=60000), "C20": dict(preempt=8, max_runs=60000),
    "C11": dict(preempt=2, max_runs=60000),
}

RULE = {
    "C01": SCHED + "Programs: 2-5 (thorough 8) threads issuing read/write lock-unlock pairs (raw calls or ReadLock/WriteLock guards, 0-2 yields inside the "
           "section); shapes free mix / batch (writer holding across yields, >=2 readers, a further writer) / reader-heavy. Oracle: holder counters checked "
           "on entry and after every yield inside the section, plus tulz's own assert(m_activeOp == opType). Non-trivial = at least one thread parked "
           "inside lock*() and a context switch happened while some thread was inside a critical section.",
    "C02": SCHED + "Programs as C01. Oracle: no deadlock (no enabled thread while threads are unfinished) in any explored schedule, and after all workers are "
           "joined lockWrite/unlockWrite/lockRead x2/unlockRead x2 on the main thread never parks. Non-trivial = an admitted (signalled) waiter was slow to wake: "
           "control went to another thread between its wake-up and its return from lock*().",
    "C03": SCHED + "Programs as C01 plus an ordering shape (a holder, then requests issued one by one, each only after the previous requester is parked; also with 10-14 threads so that 8+ queue entries wait at once). "
           "Oracle over the event log: for requests X, Y with PARK(X) < CALL(Y), not both reads: RET(X) < RET(Y). Non-trivial = at least one such ordered pair "
           "and two threads parked at once.",
    "C06": "rapidcheck generates histories (<=40 ops quick, <=80 thorough) on a SubjectRouter or ConcurrentSubjectRouter (one thread): (every second notify passes its pattern in one long-lived, re-assigned RoutingKey variable, so level objects keep their addresses while their content changes) subscribe (several per key allowed, plain and "
           "SelfView callables) under concrete keys of depth 0-3 over the names {a, b, ab, a.b, .*, ''}, unsubscribe, self-invalidation, shrink, and notify with patterns built per level "
           "from a string or one of ten regexes (.*, .+, a|b, [ab]+, a.*, a\\.b, ab?, b, '', \\.\\*); one argument signature per case from {(), int, const std::string&, std::string by value, "
           "(int, const std::string&), by-value class that records moves}. Oracle: own level-by-level matcher (one obviously-right predicate per regex, never std::regex); every expected "
           "receiver exactly once, nobody else, exact argument values (a by-value payload must arrive un-moved-from at every receiver); return value == number of distinct matched keys "
           "holding a subject; stored keys/exists/depth consistency after every op. Non-trivial = a regex notify with a non-empty argument list that matched >=2 keys while a non-matching "
           "sibling of the same depth exists or a matched key repeats a name on two levels. Distinct = distinct case text.",
    "C13": "rapidcheck generates histories (<=36 ops quick, <=70 thorough) rich in unsubscribe, SelfView invalidation, shrink (concrete, regex and wildcard patterns of depth 0-4, and "
           "all()-built wildcards) and re-subscribe. Oracle: around every shrink a probe set (wildcards of every depth, every live concrete key, the shrink pattern) is notified before and "
           "after: identical receivers; no key with a live subscription at or below disappears, nothing comes into existence, every removed key's parent lies on the pattern's path, a "
           "full-depth wildcard shrink leaves no dead key. After every op: exists() on every concrete key of the finite universe equals the model's stored set, stored keys are prefix-closed, "
           "depth() == 1 + longest stored key; exists(pattern) <=> some stored key matches level by level (own matcher). Non-trivial = a shrink that removed >=1 key while a sibling key "
           "stayed. Distinct = distinct case text.",
    "C17": "rapidcheck generates byte strings (0-4 KiB, biased to NUL, 0xFF, CR, LF, 0x1A; at low weight repeated up to 4 MiB quick / 32 MiB thorough), (in ~46% of the cases ONE File object lives through the whole history: reads the pre-existing file, is re-opened for writing, re-opened for reading) a split into 1-8 chunks written "
           "through the three write overloads (incl. elementSize 2/4), an open mode (Write/WriteText truncating, Append/AppendText extending pre-existing content) and a read-phase "
           "sequence of seek/tell/size/read(buf,size,count)/read()/readStr()/reopen in Read or ReadText; plus error cases (missing file, directory). Oracle: byte + position model; "
           "read()/readStr() equal the whole content whatever the position; read(buf) returns the item count and bytes the model predicts; size() == model length == "
           "std::filesystem::file_size with tell() unchanged; write returns the element count; Exceptions carry NotFound / NotFile; independent std::ifstream re-read. "
           "Non-trivial = content contains 0xFF or CRLF or exceeds 4096 bytes and the read phase has a size() at a non-zero position (error cases count as non-trivial). Distinct = distinct case text.",
    "C18": "rapidcheck generates (1) directory trees (depth <=4, <=40 nodes quick / 80 thorough, plus in a tenth of the tree cases one chain of 28-50 (thorough 67) nested directories compared under the same descriptor limit, empty dirs, files of 0 B..64 KiB (2 MiB thorough), names with spaces, dots, leading dots, '...', "
           "UTF-8 and non-UTF-8 bytes, backslashes) built with std::filesystem in a temporary directory; (2) path strings (d from segments/separators, absolute/relative, 0-2 trailing "
           "separators; separator-free names n) and odd strings; (3) strictly nested DirectoryVisitor stacks over generated directories (existing, missing, '.', '..', relative, empty). "
           "Oracle: (1) exists/isFile/isDirectory/size/listChildren vs std::filesystem for every node (absolute, relative, trailing separator) and missing paths, three passes under a tight "
           "descriptor limit, no descriptor left open; (2) getPathName(join(d,n))==n, getParentDirectory(join(d,n))==d minus one trailing '/', join(x,'/abs')=='/abs', join('',y)==y, ASan on "
           "every string; (3) after restore()/destruction the cwd is what it was immediately before the visitor's last effective visit(). Non-trivial = a tree with >=2 levels, an empty "
           "directory and a non-ASCII name, or a string law on a directory with a trailing separator / absolute. Distinct = distinct case text.",
    "C19": "rapidcheck builds locale strings from pieces: (per case 5 calls in one process: the string, string+x, string minus its last byte, string+.UTF-8, the string again - each answer checked against the tables; long names favoured so that strings of 63+ bytes resolve) (language by code | by name) _ (country by code | by name) [. charset] over the public tables; near misses (case changes, "
           "truncated/extended names, unknown codes, empty parts); structure breakers (no '_', '.' before '_', several of each, only delimiters); fillers of 1..300 bytes incl. "
           "63/64/65; arbitrary byte strings. Oracle: independent split and linear table lookup -> exact expected Info (by code: all table names of the code; by name: the name and only "
           "names of its code; otherwise exactly en/{English}/GB/United Kingdom with error set), pointers compared by content; result built in 0xA5-poisoned storage after poisoning the "
           "stack (an unwritten field is the poison value); exact-size heap copy of the input under ASan. Non-trivial = the input has both delimiters and at least one part that is a "
           "table entry, or a part of >= 64 bytes. Distinct = distinct case text.",
    "C14": "rapidcheck generates histories (<=60 ops quick, <=200 thorough) over a pool of 4 tulz::Array<int> / Array<lifetime-tracked class>: (initializer lists are read twice in half of the cases: two arrays from one list object) construction from pointer+length "
           "(copy, and adopting a malloc'ed block), initializer list (0-8), size, size+value, default; copy/move construct and assign, self-assignment, swap, resize(n), "
           "resize(n, v), element writes through operator[]/iterator/front/back, destroy; lengths 0-40 (thorough 0-2000). Oracle: std::vector<std::optional<int>> model "
           "(indeterminate for int slots left uninitialised) compared after every op through size/operator[]/array()/iteration; distinct arrays never share storage; "
           "lifetime registry with no tolerated shells (reachable == live after every op, nothing live at the end); allocator-hook accounting; ASan. Non-trivial = a class-type "
           "array built through pointer+length, or a resize across the old size on a class-type array, or a write next to another live array (copy independence). "
           "Distinct = distinct case text.",
    "C05": "rapidcheck generates histories (<=80 ops quick, <=160 thorough) on one Subject<Args...> for five argument signatures: subscribe (callable / callable taking "
           "SelfView / unique_ptr observer), handle.unsubscribe, subject.unsubscribe (valid, stale and foreign handles), mute/unmute, invalidate, self-invalidation on the next "
           "call, handle move construction/assignment, notify with generated values. Oracle: ordered reference model (id, muted, valid); after each notify the call log equals "
           "the model's (each subscribed, valid, unmuted observer once, subscription order, exact argument values); handle validity/mute state; stale/foreign handles rejected "
           "with std::invalid_argument; each observer's callable (sentinel-counted) is alive exactly while the model holds the observer; ASan. "
           "Non-trivial = a notify with >=3 subscribed observers of which >=1 is muted/invalid or an earlier observer was removed. Distinct = distinct case text.",
    "C10": "rapidcheck generates callback scripts for up to 8 observers of one Subject<int> (1-6 subscribed initially): actions {subscribe a new scripted observer, unsubscribe "
           "target (self, earlier, later), mute/unmute target, invalidate target/self, nested notify while depth<3}, each firing once when its owner is invoked at the action's "
           "depth; then 1-4 top-level notifies. Oracle: reference simulation of the rounds as the property words them (membership fixed at entry, removed-before-turn skipped, "
           "muted/invalid not invoked, invalid leave after their turn, newcomers first run in the next round); call logs (observer, depth, argument) must be equal; ASan decides "
           "memory safety. Non-trivial = a callback removed a not-yet-called member or itself, or subscribed during a round that was followed by another notify. Distinct = distinct case text.",
    "C16": "rapidcheck generates histories (<=60 ops quick, <=120 thorough) on Observable<long>, Observable<double, NearEq(eps in {1e-9,0.01,0.5,2.5})> and Observable<std::string>: (also Observable<int>, <unsigned char> and <float, NearEq>; a clamping subscriber that writes back into the Observable from its callback - then every live subscriber's LAST received value must equal value()) "
           "= (lvalue, temporary, moved), =current value, +=, -=, *=, /=, ++x, x++, --x, x--, apply(set|add|no-op), subscribe (T&, const T&, by-value subscribers), unsubscribe. "
           "Oracle: model value computed with the same arithmetic; per op and live subscriber exactly one notification carrying the post-op value iff !eq(old,new) (always for ++/--), "
           "none otherwise; Eq-equal assignment leaves value() bit-identical; pre/post increment return values. Non-trivial = a history with a changing and a non-changing op while "
           ">=2 subscribers are live. Distinct = distinct case text.",
    "C07": SCHED + "Programs: one owner thread over one ThreadPool with non-expiring workers (max 1-4 threads, thorough 1-6): start(new Task), start(functor, lvalue), "
           "clear(), drain (wait until every submitted task has run or was destroyed), stop(), restart, getters; always ending in stop(). Tasks log run entry/exit "
           "and destruction with the executing thread and yield inside run(). Oracle per task: run <= 1, destroyed exactly once and never before/during its run, "
           "not dropped unless clear()/stop() intervened (a lost task makes drain deadlock -> reported), no run after stop() returned, submission order with one worker. "
           "Non-trivial = >= 2 tasks and a context switch while a task was inside run().",
    "C08": SCHED + "Programs as C07, weighted towards start*/stop with few tasks and stop/restart cycles. Oracle: no deadlock (stop() returns in every explored "
           "interleaving); after stop(): getThreadCount()==0, every worker thread exited, no task running, every submitted task destroyed; a later start() runs its task; "
           "getThreadCount() <= max after every op and distinct worker threads per epoch <= max. Non-trivial = stop() was called while a worker was alive and not parked "
           "(about to wait, waking up, or running).",
    "C20": SCHED + "Cases: callable kind (function pointer | small closure | 256-byte closure | Runnable) x 0-2 lvalue arguments x start()/constructor, optionally with the first 1-3 pthread_create calls failing with EAGAIN (injected; the caller retries start()), started from a helper "
           "frame that returns, after which the parent overwrites 4 KiB of stack, polls isFinished() and joins. Oracle: liveness canary (poisoned in the destructor) intact "
           "when invoked + ASan stack-use-after-return; invoked exactly once; isFinished() true only after the callable returned; join() only after that; Runnable run once "
           "then destroyed once; no copy of the callable outlives the Thread. Non-trivial = the new thread's first instruction ran after start() had returned.",
    "C15": "rapidcheck generates free-running stress programs (no controlled scheduler) for three families: rwp::Resource (2-6 threads, raw and guard lock/unlock pairs); ThreadPool "
           "(one owner thread: start(Runnable), start(functor, lvalue), clear, update, stop, restart, getters, real sleeps of 0-5 ms; expiry timeout 0-3 ms and max thread count set "
           "before the first start; tasks of 0-200 us); ConcurrentSubjectRouter (3-6 threads issuing notify/subscribe/unsubscribe/shrink/exists/depth with atomic-counter callbacks). "
           "Each program is repeated 3-12 times in one ThreadSanitizer process with generated sched_yield/usleep noise. Oracle: ThreadSanitizer (halt_on_error); a report counts if a frame "
           "lies in tulz::, a race between harness frames only is an internal error. Non-trivial = >=2 threads were inside tulz calls at the same time (atomic in/out counters); "
           "pool family: a worker expired or stop() met a live worker. Distinct = distinct case text.",
    "C11": SCHED + "Programs: 2-4 threads, <=28 ops (thorough 44) (user code run under the write lock lingers for one scheduling point and must be alone: writer-writer as well as writer-delivery exclusion) from {notify(pattern), subscribe(key), unsubscribe (own handle), shrink(pattern), exists(pattern), depth()} on one "
           "ConcurrentSubjectRouter over keys of depth <=2 with names {a,b} and wildcard levels, 0-3 pre-populated subscriptions; callbacks log ENTER/EXIT and yield inside, they never call "
           "the router. Oracle: no user code run under the write lock (callable moved in during subscribe, observer destroyed during unsubscribe) executes while a callback is in progress and "
           "no subscribe/unsubscribe/shrink starts and returns within one callback execution; no invocation after unsubscribe() returned; every notify has an instant in [call,return] with "
           "definitely-subscribed <= delivered <= possibly-subscribed; exists()/depth() explainable by definitely/possibly present keys; ASan. Non-trivial = a mutating operation was called "
           "while a callback was between ENTER and EXIT.",
    "C12": SCHED + "Programs: writer-free (2-6 reader threads, incl. nested reads), free mix with few writers, rendezvous shape (a writer holds until all k>=2 readers "
           "are parked, then unlocks; the readers meet at a barrier inside the read section). Oracle: a read request during which no write request was outstanding "
           "never parks; the rendezvous never deadlocks. Non-trivial = >=2 reader threads inside the lock simultaneously (rendezvous: barrier completed).",
    "C04": "rapidcheck generates operation histories (<=120 ops quick, <=400 thorough) over a pool of 4 RingBuffers of one element type (pushes/emplaces may take their argument by reference to an element of the same buffer, incl. the one an overwriting push discards) "
           "(int | POD struct | lifetime-tracked class), both overwrite modes; operands are decoded interpretively so every op is valid. "
           "Oracle: std::deque + capacity model compared through the public API after every op. Non-trivial = a resize, copy or move executed "
           "on a buffer whose head index != 0 or whose contents wrap, or a pop/resize after an overwrite on the same buffer "
           "(layout derived from the model history). Distinct = distinct case text (hash).",
    "C09": "as C04 with the lifetime-tracked element type only. Oracle: lifetime registry (serial numbers: every reachable element is live, "
           "live set == reachable set after every op, nothing live at the end, no destructor on storage without an element, no double destroy) "
           "+ ASan + allocator-hook accounting (every block allocated inside a RingBuffer call is freed by the end of the case). Non-trivial = a shrinking resize that cuts >=1 element on a buffer "
           "with head != 0, or a copy assignment onto a non-empty buffer, or destruction of a wrapped buffer. Distinct = distinct case text.",
}

VS = ["controlled scheduler: pre-emption only at synchronisation operations, thread lifecycle events and harness yields; sequentially consistent memory",
      "glibc pthread primitives are modelled by the scheduler (mutex owner table, condvar waiter lists), not executed"]

ASSUMPTIONS = {
    "C06": ["own matcher: one hand-written predicate per regex in a fixed table", "explicit matching template arguments on subscribe and notify, as the header requires",
            "handles of invalidated (lazily removed) observers are never touched again"],
    "C13": ["as C06", "self-invalidation requests still pending when a shrink starts are cancelled so that the probe notifies change nothing themselves"],
    "C17": ["POSIX only (text mode == binary mode)", "std::filesystem and std::ifstream are trusted", "read()/readStr() on streams opened for writing are outside the property"],
    "C18": ["POSIX only; no symlinks or special files", "names containing '\\' are used for the filesystem oracle only, not for the join/name/parent law", "visitors are used strictly nested (LIFO)"],
    "C19": ["inputs whose country NAME contains '.' (Virgin Islands, U.S.) are ambiguous in the documented format and accepted either way (counted)",
            "by-name lookups: the table has duplicate names (Norwegian, Ndebele); any entry with that name is accepted"],
    "C14": ["element types are bitwise relocatable", "resize(n, v): v never aliases the array", "int slots that tulz leaves uninitialised are never compared"],
    "C05": ["handles are used only after isValid(), as every real caller does", "handle validity between an invalidation and the lazy removal at the next notify is left open"],
    "C10": ["callbacks never touch their captures after an action that may destroy their observer", "every observer index is subscribed at most once per case"],
    "C16": ["model uses the same C++ arithmetic; values bounded (no signed overflow, no division by zero)"],
    "C07": VS + ["non-expiring workers (setExpiryTimeout(-1)) and a single owner thread, as quantified"], "C08": VS + ["non-expiring workers, single owner thread"],
    "C20": VS + ["argument lvalues outlive the thread"],
    "C15": ["ThreadSanitizer is happens-before based: it flags an unordered conflicting pair only when both accesses execute in the run", "free-running OS scheduler: runs are not reproducible from the case alone; the saved case plus the stored report is the reproducible unit"],
    "C11": VS + ["callbacks do not call back into the router (as quantified)", "mute/isValid/invalidation from other threads are not generated: tulz does not lock them and the property does not list them",
                 "a write operation whose lock is released too early but still waits for the lock first is invisible here (no scheduling point inside unsynchronised code): that is C15's business"],
    "C01": VS, "C02": VS + ["critical sections only yield, they never wait for anything else"], "C03": VS, "C12": VS,
    "C04": ["std::deque is a correct reference model", "element types are bitwise relocatable (as the quantifier requires)"],
    "C09": ["ASan/LSan report every out-of-bounds access / leaked block they observe", "moved-from shells left by pop_* are tolerated, as pinned by RingBufferEfficiencyTest"],
}
