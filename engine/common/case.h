// Case / Result: the one value type shared by generators (rapidcheck side) and
// executors (tulz side).  A case is a plain, serialisable value:
//   header ints  (shape / configuration of the case)
//   ops          (kind, a, b, c) with raw operands, decoded interpretively by the executor
//   sched        choice bytes for the controlled scheduler (empty for sequential properties)
//   blob         raw bytes (file contents, strings)
// The text rendering of a case *is* the replay file.
#pragma once
#include <cstdint>
#include <cstdio>
#include <cstdlib>
#include <cstring>
#include <sstream>
#include <string>
#include <vector>

namespace vf {

struct Op {
    int k = 0, a = 0, b = 0, c = 0;
    bool operator==(const Op &o) const { return k == o.k && a == o.a && b == o.b && c == o.c; }
};

struct Case {
    std::string prop;
    std::vector<int> h;
    std::vector<Op> ops;
    std::vector<uint8_t> sched;
    std::string blob;
    bool operator==(const Case &o) const {
        return prop == o.prop && h == o.h && ops == o.ops && sched == o.sched && blob == o.blob;
    }
};

inline std::string render(const Case &c) {
    std::ostringstream o;
    o << "tulz-case v1\nprop " << c.prop << "\n";
    o << "h";
    for (int x : c.h) o << ' ' << x;
    o << "\n";
    for (const Op &p : c.ops) o << "o " << p.k << ' ' << p.a << ' ' << p.b << ' ' << p.c << "\n";
    o << "s";
    for (uint8_t x : c.sched) o << ' ' << (int)x;
    o << "\n";
    if (!c.blob.empty()) {
        static const char *hx = "0123456789abcdef";
        o << "b ";
        for (unsigned char ch : c.blob) o << hx[ch >> 4] << hx[ch & 15];
        o << "\n";
    }
    o << "end\n";
    return o.str();
}

inline bool parse(const std::string &text, Case &c, std::string *err = nullptr) {
    c = Case{};
    std::istringstream in(text);
    std::string line;
    bool seenEnd = false, seenMagic = false;
    while (std::getline(in, line)) {
        if (line.empty() || line[0] == '#') continue;
        std::istringstream ls(line);
        std::string tag;
        ls >> tag;
        if (tag == "tulz-case") { seenMagic = true; continue; }
        if (tag == "prop") { ls >> c.prop; continue; }
        if (tag == "h") { int x; while (ls >> x) c.h.push_back(x); continue; }
        if (tag == "o") { Op p; if (!(ls >> p.k >> p.a >> p.b >> p.c)) { if (err) *err = "bad op line: " + line; return false; } c.ops.push_back(p); continue; }
        if (tag == "s") { int x; while (ls >> x) c.sched.push_back((uint8_t)x); continue; }
        if (tag == "b") {
            std::string hex; ls >> hex;
            auto v = [](char ch) { return ch <= '9' ? ch - '0' : ch - 'a' + 10; };
            for (size_t i = 0; i + 1 < hex.size(); i += 2) c.blob.push_back((char)(v(hex[i]) * 16 + v(hex[i + 1])));
            continue;
        }
        if (tag == "end") { seenEnd = true; break; }
        if (err) *err = "unknown line: " + line;
        return false;
    }
    if (!seenMagic || !seenEnd || c.prop.empty()) { if (err) *err = "incomplete case text"; return false; }
    return true;
}

inline uint64_t fnv1a(const std::string &s) {
    uint64_t h = 1469598103934665603ull;
    for (unsigned char ch : s) { h ^= ch; h *= 1099511628211ull; }
    return h;
}

// header access with default (shrinking may shorten nothing here, but replay files may be hand-written)
inline int hget(const Case &c, size_t i, int dflt = 0) { return i < c.h.size() ? c.h[i] : dflt; }

} // namespace vf
