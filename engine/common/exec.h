// Executor-side API: what a group executor (props/<group>/exec.cpp) uses to report.
// An executor runs ONE case per process (the driver forks a child per case; --replay runs
// in-process once), so reporting a violation simply writes the verdict and leaves.
#pragma once
#include "case.h"
#include <cstdarg>
#include <set>
#include <string>

namespace vf {

// implemented by each group executor
void exec_case(const Case &c);
// names of the properties this executor serves (space separated)
extern const char *const exec_props;

// ---- reporting (implemented in engine/common/report.cpp, linked into every executor binary)
[[noreturn]] void violation(const char *cls, const char *fmt, ...) __attribute__((format(printf, 2, 3)));
[[noreturn]] void internal_error(const char *fmt, ...) __attribute__((format(printf, 1, 2)));
void label(const char *name);          // classify the case (distribution goes to the evidence)
void label_n(const char *name, long n); // add n to a counter
void nontrivial();                     // the case satisfies the property's non-triviality rule
void count_skipped(long n = 1);        // ops turned into no-ops by interpretive decoding
void count_ops(long n = 1);
void aux(const std::string &text);     // one free-form line for the driver (e.g. the scheduler's branch widths)
void note(const char *fmt, ...) __attribute__((format(printf, 1, 2))); // trace line shown on replay / in failure message
bool verbose();                        // true in --replay mode
void finish_ok();                      // called by the glue after exec_case returned
void set_fuzz_mode(bool on);            // libFuzzer targets: violation() traps, labels/notes are dropped
void reset_case_state();                // fuzz mode: forget the previous case
extern void (*cleanup_hook)();         // runs once before any exit path (violation, internal error, normal end)

#define VF_CHECK(cond, cls, ...) do { if (!(cond)) ::vf::violation(cls, __VA_ARGS__); } while (0)

} // namespace vf
