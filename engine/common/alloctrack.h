// Allocation accounting through the sanitizer allocator hooks (a cheap, deterministic replacement for a
// LeakSanitizer pass per case): every block allocated while a Scope is active (i.e. inside a call into tulz)
// must have been freed by the end of the case.
#pragma once
#include <cstddef>
#include <cstdint>

namespace vf { namespace alloctrack {
struct Entry { const volatile void *p; size_t n; };
constexpr size_t CAP = 1 << 14;
extern Entry table[CAP];
extern int depth;
extern long live_blocks, total_tracked;
struct Scope { Scope() { ++depth; } ~Scope() { --depth; } };
// harness bookkeeping (labels, notes, model containers) must not be accounted to tulz
struct Pause { int saved; Pause() : saved(depth) { depth = 0; } ~Pause() { depth = saved; } };
// first still-live tracked block (nullptr if none)
inline const Entry *first_live() { for (size_t i = 0; i < CAP; ++i) if (table[i].p && table[i].p != (void *)1) return &table[i]; return nullptr; }
}} // namespace vf::alloctrack
