#include "alloctrack.h"
namespace vf { namespace alloctrack {
Entry table[CAP];
int depth = 0;
long live_blocks = 0, total_tracked = 0;
static size_t slot(const volatile void *p) { return ((uintptr_t)p >> 4) * 0x9E3779B97F4A7C15ull >> (64 - 14); }
static void add(const volatile void *p, size_t n) {
    size_t i = slot(p);
    for (size_t k = 0; k < CAP; ++k, i = (i + 1) & (CAP - 1))
        if (!table[i].p || table[i].p == (void *)1) { table[i].p = p; table[i].n = n; ++live_blocks; ++total_tracked; return; }
}
static void del(const volatile void *p) {
    size_t i = slot(p);
    for (size_t k = 0; k < CAP; ++k, i = (i + 1) & (CAP - 1)) {
        if (!table[i].p) return;
        if (table[i].p == p) { table[i].p = (void *)1; --live_blocks; return; }
    }
}
}} // namespace
extern "C" void __sanitizer_malloc_hook(const volatile void *p, size_t n) { if (vf::alloctrack::depth > 0 && p) vf::alloctrack::add(p, n); }
extern "C" void __sanitizer_free_hook(const volatile void *p) { if (vf::alloctrack::live_blocks > 0 && p) vf::alloctrack::del(p); }
