// Lifetime registry (DESIGN.md §4): an element type with observable lifetime that may be
// relocated bitwise.  Identity is a serial number stored inside the object, so the registry
// survives the memcpy/realloc relocation that RingBuffer and Array perform legitimately.
#pragma once
#include "exec.h"
#include "alloctrack.h"
#include <cstdint>
#include <vector>

namespace vf {

struct Registry {
    enum St : uint8_t { LIVE = 1, MOVED_FROM = 2, DESTROYED = 3 };
    std::vector<uint8_t> st{0};            // index = serial; serial 0 is never used
    long constructed = 0, destroyed = 0, shells = 0;
    uint32_t fresh() { alloctrack::Pause p; st.push_back(LIVE); ++constructed; return (uint32_t)(st.size() - 1); }
    bool known(uint32_t s) const { return s != 0 && s < st.size(); }
    static Registry &get() { static Registry r; return r; }
    void reset() { alloctrack::Pause p; st.assign(1, 0); constructed = destroyed = shells = 0; }
    long count(St x) const { long n = 0; for (size_t i = 1; i < st.size(); ++i) n += st[i] == x; return n; }
};

struct Tracked {
    static constexpr uint32_t MAGIC = 0x7EA5E1ED;
    static constexpr int POISON = 0x5EADBEEF;
    uint32_t magic;
    uint32_t serial;
    int value;

    static void check_obj(const Tracked *o, const char *what, bool allowShell) {
        if (o->magic != MAGIC) violation("LIFETIME", "%s on storage that holds no element (magic=%08x serial=%u)", what, o->magic, o->serial);
        Registry &r = Registry::get();
        if (!r.known(o->serial)) violation("LIFETIME", "%s on an object with an unknown serial %u", what, o->serial);
        uint8_t s = r.st[o->serial];
        if (s == Registry::DESTROYED) violation("LIFETIME", "%s on an already destroyed element (serial %u)", what, o->serial);
        if (s == Registry::MOVED_FROM && !allowShell) violation("LIFETIME", "%s on a moved-from shell (serial %u)", what, o->serial);
    }

    Tracked() : magic(MAGIC), serial(Registry::get().fresh()), value(0) {}
    explicit Tracked(int v) : magic(MAGIC), serial(Registry::get().fresh()), value(v) {}
    Tracked(const Tracked &o) : magic(MAGIC), serial(0), value(0) {
        check_obj(&o, "copy-construction from", false);
        serial = Registry::get().fresh(); value = o.value;
    }
    Tracked(Tracked &&o) noexcept : magic(MAGIC), serial(0), value(0) {
        check_obj(&o, "move-construction from", false);
        serial = Registry::get().fresh(); value = o.value;
        Registry::get().st[o.serial] = Registry::MOVED_FROM; o.value = POISON;
    }
    Tracked &operator=(const Tracked &o) {
        check_obj(this, "copy-assignment to", true);
        check_obj(&o, "copy-assignment from", false);
        if (this != &o) { value = o.value; Registry::get().st[serial] = Registry::LIVE; }
        return *this;
    }
    Tracked &operator=(Tracked &&o) noexcept {
        check_obj(this, "move-assignment to", true);
        check_obj(&o, "move-assignment from", false);
        if (this != &o) {
            value = o.value; Registry::get().st[serial] = Registry::LIVE;
            Registry::get().st[o.serial] = Registry::MOVED_FROM; o.value = POISON;
        }
        return *this;
    }
    ~Tracked() {
        check_obj(this, "destructor", true);
        Registry &r = Registry::get();
        if (r.st[serial] == Registry::MOVED_FROM) ++r.shells;
        r.st[serial] = Registry::DESTROYED; ++r.destroyed;
        value = POISON; magic = 0xDEADDEAD;
    }
    bool operator==(const Tracked &o) const { return value == o.value; }
};

// a reachable element must be a live object
inline void check_reachable(const Tracked &t, const char *where) {
    if (t.magic != Tracked::MAGIC) violation("LIFETIME", "%s: container exposes storage that holds no element (magic=%08x)", where, t.magic);
    Registry &r = Registry::get();
    if (!r.known(t.serial)) violation("LIFETIME", "%s: unknown serial %u", where, t.serial);
    if (r.st[t.serial] != Registry::LIVE)
        violation("LIFETIME", "%s: container exposes element serial %u which is %s", where, t.serial,
                  r.st[t.serial] == Registry::DESTROYED ? "already destroyed" : "a moved-from shell");
}

} // namespace vf
