// Executor-side reporting.  See exec.h.
#include "exec.h"
#include "alloctrack.h"
#include <map>
#include <unistd.h>
#include <vector>

extern "C" int __lsan_do_recoverable_leak_check(void) __attribute__((weak));

namespace vf {

static int g_fd = 1;
static bool g_verbose = false;
static bool g_fuzz = false;    // in-process fuzzing (libFuzzer): many cases per process, a violation traps instead of leaving
static std::map<std::string, long> g_labels;
static bool g_nt = false;
static long g_skipped = 0, g_ops = 0;
static std::vector<std::string> g_notes;
static std::string g_aux;
void (*cleanup_hook)() = nullptr;   // e.g. removal of the per-case temporary directory; runs before every exit path
static void run_cleanup() { if (cleanup_hook) { auto f = cleanup_hook; cleanup_hook = nullptr; f(); } }

void set_report(int fd, bool verb) { g_fd = fd; g_verbose = verb; }
void set_fuzz_mode(bool on) { g_fuzz = on; }
// forget everything recorded for the previous case (fuzz mode runs many cases in one process)
void reset_case_state() {
    alloctrack::Pause p;
    g_aux.clear(); g_labels.clear(); g_nt = false; g_skipped = 0; g_ops = 0; g_notes.clear(); cleanup_hook = nullptr;
    for (size_t i = 0; i < alloctrack::CAP; ++i) alloctrack::table[i].p = nullptr;
    alloctrack::live_blocks = 0; alloctrack::total_tracked = 0; alloctrack::depth = 0;
}
bool verbose() { return g_verbose; }

static void put(const std::string &s) {
    size_t off = 0;
    while (off < s.size()) {
        ssize_t n = ::write(g_fd, s.data() + off, s.size() - off);
        if (n <= 0) break;
        off += (size_t)n;
    }
}

static std::string oneline(std::string s) {
    for (char &ch : s) if (ch == '\n' || ch == '\r') ch = ' ';
    return s;
}

static void emit(const char *status, const std::string &cls, const std::string &msg) {
    std::string o;
    o += "STATUS "; o += status; o += "\n";
    o += "CLASS " + oneline(cls) + "\n";
    o += "MSG " + oneline(msg) + "\n";
    o += std::string("NT ") + (g_nt ? "1" : "0") + "\n";
    o += "LABELS";
    for (auto &kv : g_labels) o += " " + kv.first + "=" + std::to_string(kv.second);
    o += "\n";
    o += "SKIPPED " + std::to_string(g_skipped) + "\n";
    o += "OPS " + std::to_string(g_ops) + "\n";
    if (!g_aux.empty()) o += "AUX " + oneline(g_aux) + "\n";
    o += "END\n";
    put(o);
}

static std::string vfmt(const char *fmt, va_list ap) {
    char b[2048];
    vsnprintf(b, sizeof b, fmt, ap);
    return b;
}

void violation(const char *cls, const char *fmt, ...) {
    va_list ap; va_start(ap, fmt); std::string m = vfmt(fmt, ap); va_end(ap);
    if (g_fuzz) { run_cleanup(); fprintf(stderr, "VF-VIOLATION class=%s %s\n", cls, m.c_str()); fflush(stderr); __builtin_trap(); }
    if (g_verbose) {
        fprintf(stdout, "---- trace (%zu notes)\n", g_notes.size());
        for (auto &n : g_notes) fprintf(stdout, "  %s\n", n.c_str());
        fflush(stdout);
    }
    run_cleanup();
    emit("VIOL", cls, m);
    _exit(g_verbose ? 1 : 0);
}

void internal_error(const char *fmt, ...) {
    va_list ap; va_start(ap, fmt); std::string m = vfmt(fmt, ap); va_end(ap);
    run_cleanup();
    if (g_fuzz) { fprintf(stderr, "VF-INTERNAL %s\n", m.c_str()); fflush(stderr); __builtin_trap(); }
    emit("INTERNAL", "INTERNAL", m);
    _exit(g_verbose ? 3 : 0);
}

void label(const char *name) { if (g_fuzz) return; alloctrack::Pause p; g_labels[name] = 1; }
void label_n(const char *name, long n) { if (g_fuzz) return; alloctrack::Pause p; g_labels[name] += n; }
void nontrivial() { g_nt = true; }
void count_skipped(long n) { g_skipped += n; }
void count_ops(long n) { g_ops += n; }
void aux(const std::string &text) { alloctrack::Pause p; g_aux = text; }

void note(const char *fmt, ...) {
    if (g_fuzz) return;
    alloctrack::Pause p;
    if (!g_verbose && g_notes.size() > 4000) return;
    va_list ap; va_start(ap, fmt); g_notes.push_back(vfmt(fmt, ap)); va_end(ap);
}

const std::vector<std::string> &notes() { return g_notes; }

void finish_ok() {
    run_cleanup();
    if (g_fuzz) return;
    // explicit leak check: the child leaves through _exit, so the atexit check never runs
    if (__lsan_do_recoverable_leak_check && getenv("VF_LSAN")) {
        if (__lsan_do_recoverable_leak_check() != 0) {
            emit("VIOL", "LEAK", "LeakSanitizer reported a leak at the end of the case");
            _exit(g_verbose ? 1 : 0);
        }
    }
    if (g_verbose) {
        fprintf(stdout, "---- trace (%zu notes)\n", g_notes.size());
        for (auto &n : g_notes) fprintf(stdout, "  %s\n", n.c_str());
        fflush(stdout);
    }
    emit("OK", "-", "-");
}

} // namespace vf

// sanitizer defaults for every executor binary (environment may override)
extern "C" const char *__asan_default_options() {
    return "detect_leaks=1:leak_check_at_exit=0:detect_stack_use_after_return=1:abort_on_error=0:"
           "allocator_may_return_null=1:detect_odr_violation=0:handle_abort=0";
}
extern "C" const char *__ubsan_default_options() { return "print_stacktrace=0:halt_on_error=1"; }
extern "C" const char *__lsan_default_options() { return "print_suppressions=0"; }
