// Generator helpers (rapidcheck side).  No tulz headers here.
#pragma once
#include "../common/case.h"
#include <rapidcheck.h>
#include <functional>
#include <map>

namespace vf {

enum Tier { QUICK = 0, THOROUGH = 1 };

// size-independent integer in [lo, hi] (rapidcheck's inRange collapses at small sizes)
inline rc::Gen<int> rng(int lo, int hi) { return rc::gen::resize(100, rc::gen::inRange<int>(lo, hi + 1)); }

struct KindSpec { int kind; int weight; int amax; int bmax; int cmax; };

// one op: kind by weight (shrinks towards the first listed kind), operands uniform in [0, max]
inline rc::Gen<Op> genOp(std::vector<KindSpec> kinds) {
    int total = 0;
    for (auto &k : kinds) total += k.weight;
    return rc::gen::mapcat(rng(0, total - 1), [kinds](int w) {
        size_t i = 0;
        while (w >= kinds[i].weight) { w -= kinds[i].weight; ++i; }
        KindSpec ks = kinds[i];
        return rc::gen::map(rc::gen::tuple(rng(0, ks.amax), rng(0, ks.bmax), rng(0, ks.cmax)),
                            [ks](const std::tuple<int, int, int> &t) {
                                Op o; o.k = ks.kind; o.a = std::get<0>(t); o.b = std::get<1>(t); o.c = std::get<2>(t);
                                return o;
                            });
    });
}

// a list of ops whose length grows with the rapidcheck size up to maxLen (at size 100);
// shrinks by dropping ops and by shrinking operands
inline rc::Gen<std::vector<Op>> genOps(std::vector<KindSpec> kinds, int maxLen) {
    return rc::gen::scale(maxLen / 100.0, rc::gen::container<std::vector<Op>>(genOp(std::move(kinds))));
}

// schedule vectors: empty | sparse (mostly 0 = "keep running") | uniform
inline rc::Gen<std::vector<uint8_t>> genSched(int maxLen, int maxChoice = 4) {
    auto sparse = [maxLen, maxChoice](int oneIn) {
        auto e = rc::gen::map(rc::gen::tuple(rng(0, oneIn - 1), rng(1, maxChoice)),
                              [](const std::tuple<int, int> &t) { return (uint8_t)(std::get<0>(t) == 0 ? std::get<1>(t) : 0); });
        return rc::gen::scale(maxLen / 100.0, rc::gen::container<std::vector<uint8_t>>(e));
    };
    auto uniform = rc::gen::scale(maxLen / 100.0, rc::gen::container<std::vector<uint8_t>>(
                                                    rc::gen::map(rng(0, maxChoice), [](int x) { return (uint8_t)x; })));
    // sparse schedule in which some of the non-default bytes also carry a spurious wake-up (bit 7; see vsched.cpp)
    auto spurious = rc::gen::map(rc::gen::tuple(sparse(3), rng(0, 255)), [](const std::tuple<std::vector<uint8_t>, int> &t) {
        std::vector<uint8_t> v = std::get<0>(t); unsigned x = (unsigned)std::get<1>(t) * 2654435761u;
        for (auto &b : v) { x = x * 1103515245u + 12345u; if (b && ((x >> 16) & 3) == 0) b = (uint8_t)(0x80 | ((x >> 20) & 0x78) | (b & 7)); }
        return v;
    });
    return rc::gen::weightedOneOf<std::vector<uint8_t>>({
        {1, rc::gen::just(std::vector<uint8_t>{})},
        {3, sparse(8)}, {4, sparse(4)}, {4, sparse(2)}, {3, uniform}, {2, spurious}});
}

// PCT mode: the bytes only seed priorities (first 16) and up to three change points (next 3)
inline rc::Gen<std::vector<uint8_t>> genSchedPCT() {
    return rc::gen::mapcat(rng(16, 19), [](int n) { return rc::gen::container<std::vector<uint8_t>>((size_t)n, rc::gen::resize(100, rc::gen::arbitrary<uint8_t>())); });
}

inline rc::Gen<std::vector<int>> genHeader(std::vector<std::pair<int, int>> ranges) {
    std::vector<rc::Gen<int>> gs;
    rc::Gen<std::vector<int>> acc = rc::gen::just(std::vector<int>{});
    for (auto r : ranges) {
        acc = rc::gen::map(rc::gen::tuple(acc, rng(r.first, r.second)), [](const std::tuple<std::vector<int>, int> &t) {
            auto v = std::get<0>(t); v.push_back(std::get<1>(t)); return v;
        });
    }
    return acc;
}

inline rc::Gen<Case> genCase(std::string prop, rc::Gen<std::vector<int>> h, rc::Gen<std::vector<Op>> ops,
                             rc::Gen<std::vector<uint8_t>> sched = rc::gen::just(std::vector<uint8_t>{}),
                             rc::Gen<std::string> blob = rc::gen::just(std::string{})) {
    return rc::gen::map(rc::gen::tuple(h, ops, sched, blob),
                        [prop](const std::tuple<std::vector<int>, std::vector<Op>, std::vector<uint8_t>, std::string> &t) {
                            Case c; c.prop = prop; c.h = std::get<0>(t); c.ops = std::get<1>(t); c.sched = std::get<2>(t); c.blob = std::get<3>(t);
                            return c;
                        });
}

// registry: property id -> generator factory
using GenFactory = std::function<rc::Gen<Case>(Tier)>;
std::map<std::string, GenFactory> &registry();
struct Register { Register(const char *id, GenFactory f) { registry()[id] = std::move(f); } };

// small-scope program spaces for systematic schedule enumeration (thorough tier): count + i-th program (schedule empty)
struct EnumSpace { size_t count = 0; std::function<Case(size_t)> at; const char *description = ""; };
std::map<std::string, EnumSpace> &enum_registry();
struct RegisterEnum { RegisterEnum(const char *id, EnumSpace e) { enum_registry()[id] = std::move(e); } };

} // namespace vf

namespace rc {
template <> struct Arbitrary<vf::Op> {
    static Gen<vf::Op> arbitrary() { return gen::just(vf::Op{}); }
};
} // namespace rc
namespace vf {
inline void showValue(const Case &c, std::ostream &os) { os << render(c); }
inline void showValue(const Op &o, std::ostream &os) { os << "o " << o.k << ' ' << o.a << ' ' << o.b << ' ' << o.c; }
} // namespace vf
