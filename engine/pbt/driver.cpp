// Generic property-based-testing driver: rapidcheck generates and shrinks cases, each case is
// executed in a forked child by the executor linked into this binary (vf::exec_case).
//
//   bin --explore --prop C04 --tier quick --seed N --cases N --max-size S --out stats.json
//       --replay-dir DIR [--known SIG]...
//   bin --replay FILE            run one case in-process, verbosely; exit 0 ok / 1 violation / 3 internal
//   bin --render --prop C04 --seed N --cases K     print K generated cases (debugging generators)
#include "gen.h"
#include "../common/exec.h"

#include <fcntl.h>
#include <signal.h>
#include <sys/resource.h>
#include <sys/stat.h>
#include <sys/time.h>
#include <sys/wait.h>
#include <unistd.h>

#include <algorithm>
#include <chrono>
#include <fstream>
#include <iostream>
#include <set>

namespace vf {
void set_report(int fd, bool verbose);
std::map<std::string, GenFactory> &registry() { static std::map<std::string, GenFactory> r; return r; }
std::map<std::string, EnumSpace> &enum_registry() { static std::map<std::string, EnumSpace> r; return r; }
} // namespace vf

using namespace vf;

namespace {

struct Outcome {
    enum Kind { OK, VIOL, INTERNAL, TIMEOUT } kind = OK;
    std::string cls, msg;
    bool nt = false;
    std::string aux;          // free-form line of the executor (scheduler branch widths)
    std::string raw;          // full stderr of a child that died without a verdict (sanitizer report)
    std::map<std::string, long> labels;
    long skipped = 0, ops = 0;
};

std::string g_errfile;
int g_cpu_limit = 20, g_wall_limit = 300;
double g_max_shrink_s = 150;   // wall-clock bound on the shrinking phase (the current best case is kept)
long g_max_shrink = 1200;   // bound on shrink steps (each is a forked execution); the current best is kept when it is hit

std::string slurp(const std::string &path) {
    std::ifstream f(path, std::ios::binary);
    std::ostringstream o; o << f.rdbuf(); return o.str();
}

// derive a short, stable class from what the sanitizers / glibc wrote to stderr
std::string classify_stderr(const std::string &err, int status) {
    auto find_line = [&](const char *needle) -> std::string {
        size_t p = err.find(needle);
        if (p == std::string::npos) return "";
        size_t b = err.rfind('\n', p); b = (b == std::string::npos) ? 0 : b + 1;
        size_t e = err.find('\n', p); if (e == std::string::npos) e = err.size();
        return err.substr(b, e - b);
    };
    std::string l;
    if (!(l = find_line("SUMMARY: AddressSanitizer:")).empty()) {
        // SUMMARY: AddressSanitizer: heap-use-after-free /path/file.h:56:13 in tulz::Subject<>::notify()
        std::istringstream ls(l); std::string a, b, kind; ls >> a >> b >> kind;
        std::string fn; size_t p = l.find(" in "); if (p != std::string::npos) fn = l.substr(p + 4);
        if (fn.size() > 80) fn.resize(80);
        return "ASAN:" + kind + (fn.empty() ? "" : ":" + fn);
    }
    if (!(l = find_line("SUMMARY: UndefinedBehaviorSanitizer:")).empty()) {
        std::istringstream ls(l); std::string a, b, kind, where; ls >> a >> b >> kind >> where;
        size_t s = where.rfind('/'); if (s != std::string::npos) where = where.substr(s + 1);
        return "UBSAN:" + kind + ":" + where;
    }
    if (!(l = find_line("runtime error:")).empty()) {
        size_t p = l.find("runtime error:"); std::string m = l.substr(p + 15); if (m.size() > 70) m.resize(70);
        return "UBSAN:" + m;
    }
    if (!(l = find_line("Assertion `")).empty()) {
        size_t p = l.find("Assertion `"); size_t e = l.find("' failed", p);
        std::string m = l.substr(p + 11, e == std::string::npos ? std::string::npos : e - p - 11);
        if (m.size() > 90) m.resize(90);
        return "ASSERT:" + m;
    }
    if (!(l = find_line("SUMMARY: ThreadSanitizer:")).empty()) {
        std::string m = l.substr(l.find("ThreadSanitizer:") + 17); if (m.size() > 100) m.resize(100);
        return "TSAN:" + m;
    }
    if (!(l = find_line("terminate called")).empty()) return "TERMINATE:" + find_line("what():");
    if (WIFSIGNALED(status)) return "SIGNAL:" + std::to_string(WTERMSIG(status));
    return "EXIT:" + std::to_string(WIFEXITED(status) ? WEXITSTATUS(status) : -1);
}

Outcome parse_report(const std::string &rep, int status) {
    Outcome o;
    std::istringstream in(rep);
    std::string line, st;
    bool end = false;
    while (std::getline(in, line)) {
        if (line.rfind("STATUS ", 0) == 0) st = line.substr(7);
        else if (line.rfind("CLASS ", 0) == 0) o.cls = line.substr(6);
        else if (line.rfind("MSG ", 0) == 0) o.msg = line.substr(4);
        else if (line.rfind("NT ", 0) == 0) o.nt = line[3] == '1';
        else if (line.rfind("SKIPPED ", 0) == 0) o.skipped = atol(line.c_str() + 8);
        else if (line.rfind("OPS ", 0) == 0) o.ops = atol(line.c_str() + 4);
        else if (line.rfind("AUX ", 0) == 0) o.aux = line.substr(4);
        else if (line.rfind("LABELS", 0) == 0) {
            std::istringstream ls(line.substr(6)); std::string kv;
            while (ls >> kv) { size_t e = kv.find('='); if (e != std::string::npos) o.labels[kv.substr(0, e)] = atol(kv.c_str() + e + 1); }
        } else if (line == "END") end = true;
    }
    if (end && st == "OK") { o.kind = Outcome::OK; return o; }
    if (end && st == "VIOL") { o.kind = Outcome::VIOL; return o; }
    if (end && st == "INTERNAL") { o.kind = Outcome::INTERNAL; return o; }
    // no verdict: the child died (sanitizer, assert, signal)
    std::string err = slurp(g_errfile);
    if (WIFSIGNALED(status) && WTERMSIG(status) == SIGALRM) { o.kind = Outcome::TIMEOUT; o.cls = "TIMEOUT"; o.msg = "wall-clock backstop hit"; return o; }
    o.kind = Outcome::VIOL;
    if (WIFSIGNALED(status) && (WTERMSIG(status) == SIGXCPU || WTERMSIG(status) == SIGKILL)) { o.cls = "HANG"; o.msg = "case exceeded its CPU-time budget"; return o; }
    o.cls = classify_stderr(err, status);
    // a ThreadSanitizer report counts only if a frame of either access lies in tulz; a race between harness frames is
    // a defect of the machinery: internal error, neither pass nor violation
    if (o.cls.rfind("TSAN:", 0) == 0 && err.find("tulz::") == std::string::npos) { o.kind = Outcome::INTERNAL; o.cls = "HARNESS_RACE"; }
    o.raw = err;
    if (err.size() > 1500) err.resize(1500);
    for (char &ch : err) if (ch == '\n') ch = '|';
    o.msg = err;
    return o;
}

Outcome run_forked(const Case &c) {
    int fds[2];
    if (pipe(fds) != 0) { perror("pipe"); _exit(3); }
    fflush(stdout); fflush(stderr);
    pid_t pid = fork();
    if (pid < 0) { perror("fork"); _exit(3); }
    if (pid == 0) {
        close(fds[0]);
        int e = open(g_errfile.c_str(), O_WRONLY | O_CREAT | O_TRUNC, 0644);
        if (e >= 0) { dup2(e, 2); close(e); }
        int dn = open("/dev/null", O_WRONLY); if (dn >= 0) { dup2(dn, 1); close(dn); }
        struct rlimit rl; rl.rlim_cur = g_cpu_limit; rl.rlim_max = g_cpu_limit + 2; setrlimit(RLIMIT_CPU, &rl);
        struct rlimit co; co.rlim_cur = co.rlim_max = 0; setrlimit(RLIMIT_CORE, &co);
        alarm(g_wall_limit);
        set_report(fds[1], false);
        // nothing may escape from here: an exception leaving exec_case would otherwise unwind into rapidcheck's loop and turn
        // this child into a second driver
        try {
            exec_case(c);
            finish_ok();
        } catch (const std::exception &e) {
            std::string w = e.what(); if (w.size() > 300) w.resize(300);
            violation("EXCEPTION", "an exception escaped from the code under test: %s", w.c_str());
        } catch (...) {
            violation("EXCEPTION", "a non-standard exception escaped from the code under test");
        }
        _exit(0);
    }
    close(fds[1]);
    std::string rep; char buf[4096]; ssize_t n;
    while ((n = read(fds[0], buf, sizeof buf)) > 0) rep.append(buf, (size_t)n);
    close(fds[0]);
    int status = 0;
    while (waitpid(pid, &status, 0) < 0 && errno == EINTR) {}
    return parse_report(rep, status);
}

std::string json_escape(const std::string &s) {
    std::string o;
    for (unsigned char ch : s) {
        if (ch == '"' || ch == '\\') { o += '\\'; o += (char)ch; }
        else if (ch == '\n') o += "\\n";
        else if (ch < 0x20 || ch >= 0x7f) { char b[8]; snprintf(b, sizeof b, "\\u%04x", ch); o += b; }
        else o += (char)ch;
    }
    return o;
}

struct Stats {
    long evaluations = 0, shrink_evals = 0, known_hits = 0, timeouts = 0, internal = 0, skipped = 0, ops = 0, nt_cases = 0;
    std::set<uint64_t> all_hashes, nt_hashes;
    std::vector<std::string> samples;
    std::map<std::string, long> labels;
    std::map<std::string, long> known_by_sig;
};

bool sig_matches(const std::string &sig, const std::string &pat) { return sig.find(pat) != std::string::npos; }

int usage() { fprintf(stderr, "usage: see engine/pbt/driver.cpp\n"); return 3; }

} // namespace

int main(int argc, char **argv) {
    std::string mode, prop, tierS = "quick", out, replayDir = ".", replayFile;
    uint64_t seed = 1; int cases = 100, maxSize = 100;
    int shard = 0, nshards = 1, preempt = 2; long maxRuns = 2000000;
    size_t firstN = 0; int firstK = 0;   // the first N programs of the space are explored with bound K instead of `preempt`
    std::vector<std::string> known, foreign;
    for (int i = 1; i < argc; ++i) {
        std::string a = argv[i];
        auto next = [&]() -> std::string { if (i + 1 >= argc) { usage(); _exit(3); } return argv[++i]; };
        if (a == "--explore" || a == "--render" || a == "--enumerate") mode = a;
        else if (a == "--shard") shard = atoi(next().c_str());
        else if (a == "--nshards") nshards = atoi(next().c_str());
        else if (a == "--preempt") preempt = atoi(next().c_str());
        else if (a == "--max-runs") maxRuns = atol(next().c_str());
        else if (a == "--preempt-first") { std::string v = next(); size_t c = v.find(':'); firstN = strtoul(v.c_str(), nullptr, 10); firstK = c == std::string::npos ? preempt : atoi(v.c_str() + c + 1); }
        else if (a == "--replay") { mode = a; replayFile = next(); }
        else if (a == "--prop") prop = next();
        else if (a == "--tier") tierS = next();
        else if (a == "--seed") seed = strtoull(next().c_str(), nullptr, 10);
        else if (a == "--cases") cases = atoi(next().c_str());
        else if (a == "--max-size") maxSize = atoi(next().c_str());
        else if (a == "--out") out = next();
        else if (a == "--replay-dir") replayDir = next();
        else if (a == "--known") known.push_back(next());
        else if (a == "--foreign") foreign.push_back(next());
        else if (a == "--cpu-limit") g_cpu_limit = atoi(next().c_str());
        else if (a == "--max-shrink") g_max_shrink = atol(next().c_str());
        else if (a == "--wall-limit") g_wall_limit = atoi(next().c_str());
        else if (a == "--props") { printf("%s\n", exec_props); return 0; }
        else return usage();
    }
    Tier tier = tierS == "thorough" ? THOROUGH : QUICK;

    if (mode == "--replay") {
        Case c; std::string err;
        if (!parse(slurp(replayFile), c, &err)) { fprintf(stderr, "cannot parse %s: %s\n", replayFile.c_str(), err.c_str()); return 3; }
        if (std::string(exec_props).find(c.prop) == std::string::npos) { fprintf(stderr, "this executor does not serve %s\n", c.prop.c_str()); return 3; }
        // the same budgets as in exploration, so that a replay of a hanging case ends by itself
        { struct rlimit rl; rl.rlim_cur = (rlim_t)g_cpu_limit * 3; rl.rlim_max = (rlim_t)g_cpu_limit * 3 + 2; setrlimit(RLIMIT_CPU, &rl); alarm(g_wall_limit > 120 ? 120 : g_wall_limit); }
        set_report(1, true);
        try {
            exec_case(c);
            finish_ok();
        } catch (const std::exception &e) {
            violation("EXCEPTION", "an exception escaped from the code under test: %s", e.what());
        } catch (...) {
            violation("EXCEPTION", "a non-standard exception escaped from the code under test");
        }
        fflush(stdout);
        _exit(0);
    }

    if (mode == "--enumerate") {
        // Systematic small-scope exploration: every program of the property's small program space (sharded), and for each
        // program EVERY schedule with at most `preempt` non-default choices (depth-first over the branch widths that the
        // scheduler reports for each run).  No randomness; complete within the stated bounds unless max-runs is hit.
        auto es = enum_registry().find(prop);
        if (es == enum_registry().end()) { fprintf(stderr, "no enumeration space for '%s'\n", prop.c_str()); return 3; }
        g_errfile = replayDir + "/.stderr." + std::to_string(getpid());
        long runs = 0, programs = 0, ntRuns = 0, timeouts = 0, internal = 0, knownHits = 0, foreignHits = 0; bool capped = false;
        std::set<uint64_t> ntHashes; std::vector<std::string> samples; std::map<std::string, long> labels;
        std::string failFile, failSig, failMsg;
        auto t0 = std::chrono::steady_clock::now();
        for (size_t pi = (size_t)shard; pi < es->second.count && failFile.empty() && !capped; pi += (size_t)nshards) {
            Case base = es->second.at(pi); base.prop = prop; ++programs;
            struct Node { std::vector<uint8_t> prefix; int used; };
            std::vector<Node> stack; stack.push_back(Node{{}, 0});
            while (!stack.empty() && failFile.empty()) {
                if (runs >= maxRuns) { capped = true; break; }
                Node nd = stack.back(); stack.pop_back();
                Case c = base; c.sched = nd.prefix;
                Outcome o = run_forked(c); ++runs;
                if (o.kind == Outcome::TIMEOUT) { ++timeouts; continue; }
                if (o.kind == Outcome::INTERNAL) { ++internal; continue; }
                if (o.kind == Outcome::VIOL) {
                    bool skip = false;
                    for (auto &k : known) if (sig_matches(o.cls, k)) { ++knownHits; skip = true; }
                    for (auto &k : foreign) if (sig_matches(o.cls, k)) { ++foreignHits; skip = true; }
                    if (skip) continue;
                    std::string text = render(c);
                    char name[64]; snprintf(name, sizeof name, "%s-enum-%016llx.case", prop.c_str(), (unsigned long long)fnv1a(text));
                    failFile = replayDir + "/" + name; failSig = o.cls; failMsg = o.msg;
                    std::ofstream f(failFile); f << "# " << o.cls << " (found by small-scope enumeration)\n" << text; f.close();
                    if (!o.raw.empty()) { std::ofstream rf(failFile + ".report.txt"); rf << o.raw; }
                    break;
                }
                for (auto &kv : o.labels) labels[kv.first] += kv.second;
                if (o.nt) { ++ntRuns; std::string text = render(c); if (ntHashes.insert(fnv1a(text)).second && samples.size() < 3) samples.push_back(text); }
                if (nd.used >= (pi < firstN ? firstK : preempt)) continue;
                // children: change one later default choice to a non-default alternative
                const std::string &w = o.aux;   // "W" followed by one digit per consumed choice
                for (size_t j = nd.prefix.size(); j + 1 < w.size() + 0 && j < 4096; ++j) {
                    int width = w[j + 1] - '0';
                    for (int v = 1; v < width; ++v) {
                        Node ch; ch.prefix = nd.prefix; ch.prefix.resize(j, 0); ch.prefix.push_back((uint8_t)v); ch.used = nd.used + 1;
                        stack.push_back(std::move(ch));
                    }
                }
            }
        }
        double wall = std::chrono::duration<double>(std::chrono::steady_clock::now() - t0).count();
        unlink(g_errfile.c_str());
        if (!out.empty()) {
            std::ofstream j(out);
            j << "{\n \"prop\": \"" << prop << "\", \"mode\": \"enumerate\", \"wall_s\": " << wall << ", \"programs\": " << programs << ", \"program_space\": " << es->second.count
              << ", \"runs\": " << runs << ", \"preemption_bound\": " << preempt << ", \"first_n\": " << firstN << ", \"first_k\": " << firstK << ", \"capped\": " << (capped ? "true" : "false") << ", \"nt_runs\": " << ntRuns
              << ", \"timeouts\": " << timeouts << ", \"internal\": " << internal << ", \"known_hits\": " << knownHits << ", \"foreign_hits\": " << foreignHits << ",\n \"nt_hashes\": [";
            { bool first = true; for (uint64_t h : ntHashes) { j << (first ? "" : ",") << "\"" << std::hex << h << std::dec << "\""; first = false; } }
            j << "],\n \"samples\": [";
            for (size_t i = 0; i < samples.size(); ++i) j << (i ? "," : "") << "\"" << json_escape(samples[i]) << "\"";
            j << "],\n \"labels\": {";
            { bool first = true; for (auto &kv : labels) { j << (first ? "" : ",") << "\"" << json_escape(kv.first) << "\": " << kv.second; first = false; } }
            j << "},\n \"description\": \"" << json_escape(es->second.description) << "\",\n \"failure\": "
              << (failFile.empty() ? "null" : ("{\"file\": \"" + json_escape(failFile) + "\", \"sig\": \"" + json_escape(failSig) + "\", \"msg\": \"" + json_escape(failMsg) + "\"}")) << "\n}\n";
        }
        fflush(stdout); fflush(stderr);
        _exit(failFile.empty() ? 0 : 1);
    }

    auto it = registry().find(prop);
    if (it == registry().end()) { fprintf(stderr, "no generator registered for '%s'\n", prop.c_str()); return 3; }
    rc::Gen<Case> gen = it->second(tier);

    std::string params = "seed=" + std::to_string(seed) + " max_success=" + std::to_string(cases) + " max_size=" + std::to_string(maxSize) +
                         " noshrink=0 verbose_progress=0 verbose_shrinking=0";
    setenv("RC_PARAMS", params.c_str(), 1);

    if (mode == "--render") {
        int k = 0;
        rc::check([&] { Case c = *gen; std::cout << render(c) << "\n"; ++k; });
        return 0;
    }
    if (mode != "--explore") return usage();

    g_errfile = replayDir + "/.stderr." + std::to_string(getpid());
    Stats st;
    bool failing = false;           // set once the first failure was seen: later evaluations are shrink steps
    std::chrono::steady_clock::time_point failT0{};
    Case lastFail; Outcome lastOut; bool haveFail = false;
    auto t0 = std::chrono::steady_clock::now();

    bool ok = rc::check(prop, [&] {
        Case c = *gen;
        c.prop = prop;
        if (failing && st.shrink_evals >= g_max_shrink) return;   // stop shrinking: reject every further candidate
        if (failing && std::chrono::duration<double>(std::chrono::steady_clock::now() - failT0).count() > g_max_shrink_s) return;   // ... also when shrinking takes too long (huge cases)
        if (failing && lastOut.cls == "HANG" && st.shrink_evals >= 12) return;   // every step of a hanging case costs the full CPU budget
        if (st.timeouts >= 5) { ++st.labels["skipped_after_repeated_timeouts"]; return; }   // the box is overloaded or the tree hangs: inconclusive, stop burning time
        Outcome o = run_forked(c);
        if (failing) ++st.shrink_evals; else ++st.evaluations;
        if (o.kind == Outcome::TIMEOUT) { ++st.timeouts; return; }           // inconclusive, never a violation
        if (o.kind == Outcome::INTERNAL) { ++st.internal; fprintf(stderr, "INTERNAL: %s\n", o.msg.c_str()); return; }
        if (o.kind == Outcome::VIOL) {
            for (auto &k : known) if (sig_matches(o.cls, k)) { ++st.known_hits; ++st.known_by_sig[k]; return; }
            // a failure class that belongs to another property's oracle: counted, reported by that property's check
            for (auto &k : foreign) if (sig_matches(o.cls, k)) { ++st.labels["foreign_" + k]; return; }
            if (!failing) failT0 = std::chrono::steady_clock::now();
            failing = true; haveFail = true; lastFail = c; lastOut = o;
            RC_FAIL(o.cls + " " + o.msg);
        }
        if (!failing) {
            std::string text = render(c);
            uint64_t hsh = fnv1a(text);
            st.all_hashes.insert(hsh);
            st.skipped += o.skipped; st.ops += o.ops;
            for (auto &kv : o.labels) st.labels[kv.first] += kv.second;
            if (o.nt) { ++st.nt_cases; if (st.nt_hashes.insert(hsh).second && st.samples.size() < 3) st.samples.push_back(text); }
        }
    });
    double wall = std::chrono::duration<double>(std::chrono::steady_clock::now() - t0).count();
    unlink(g_errfile.c_str());

    std::string failFile, failSig, failMsg;
    if (!ok && haveFail) {
        std::string text = render(lastFail);
        char name[64]; snprintf(name, sizeof name, "%s-%016llx.case", prop.c_str(), (unsigned long long)fnv1a(text));
        failFile = replayDir + "/" + name;
        std::ofstream f(failFile); f << "# " << lastOut.cls << "\n" << text; f.close();
        if (!lastOut.raw.empty()) { std::ofstream rf(failFile + ".report.txt"); rf << lastOut.raw; }
        failSig = lastOut.cls; failMsg = lastOut.msg;
    }

    if (!out.empty()) {
        std::ofstream j(out);
        j << "{\n";
        j << " \"prop\": \"" << prop << "\", \"seed\": " << seed << ", \"wall_s\": " << wall << ",\n";
        j << " \"evaluations\": " << st.evaluations << ", \"shrink_evals\": " << st.shrink_evals << ", \"known_hits\": " << st.known_hits
          << ", \"timeouts\": " << st.timeouts << ", \"internal\": " << st.internal << ", \"skipped_ops\": " << st.skipped
          << ", \"ops\": " << st.ops << ", \"nt_cases\": " << st.nt_cases << ", \"distinct_cases\": " << st.all_hashes.size() << ",\n";
        j << " \"nt_hashes\": [";
        { bool first = true; for (uint64_t h : st.nt_hashes) { j << (first ? "" : ",") << "\"" << std::hex << h << std::dec << "\""; first = false; } }
        j << "],\n \"samples\": [";
        for (size_t i = 0; i < st.samples.size(); ++i) j << (i ? "," : "") << "\"" << json_escape(st.samples[i]) << "\"";
        j << "],\n \"labels\": {";
        { bool first = true; for (auto &kv : st.labels) { j << (first ? "" : ",") << "\"" << json_escape(kv.first) << "\": " << kv.second; first = false; } }
        j << "},\n \"known_by_sig\": {";
        { bool first = true; for (auto &kv : st.known_by_sig) { j << (first ? "" : ",") << "\"" << json_escape(kv.first) << "\": " << kv.second; first = false; } }
        j << "},\n \"rc_ok\": " << (ok ? "true" : "false") << ",\n";
        j << " \"failure\": " << (failFile.empty() ? "null" : ("{\"file\": \"" + json_escape(failFile) + "\", \"sig\": \"" + json_escape(failSig) + "\", \"msg\": \"" + json_escape(failMsg) + "\"}")) << "\n}\n";
    }
    fflush(stdout); fflush(stderr);
    _exit(ok ? 0 : (haveFail ? 1 : 3));
}
