// libFuzzer second engine (thorough tier): bytes are decoded into the SAME case value and executed by the SAME
// executor + oracle as the rapidcheck cases, in-process.  A violation prints "VF-VIOLATION ..." and traps, so libFuzzer
// stores the input; `check` decodes the artifact into a .case file (same decoding, in python) and replays it through the
// ordinary path before reporting anything.
//
//   byte layout (structure-aware):  [h0][h1]  then 4 bytes per op: kind, a, b, c      (property VF_FUZZ_PROP, e.g. C04)
//   for C19:                        the bytes ARE the locale string                    (blob case, header h0 = 1)
#include "../common/exec.h"
#include "../common/tracked.h"
#include <cstdlib>
#include <string>

namespace { std::string g_prop; int g_nk = 21, g_tier = 0; }

extern "C" int LLVMFuzzerInitialize(int *, char ***) {
    const char *p = getenv("VF_FUZZ_PROP");
    g_prop = p ? p : "C04";
    const char *nk = getenv("VF_FUZZ_NKINDS"); if (nk) g_nk = atoi(nk);
    vf::set_fuzz_mode(true);
    return 0;
}

extern "C" int LLVMFuzzerTestOneInput(const uint8_t *data, size_t size) {
    vf::reset_case_state();
    vf::Registry::get().reset();
    vf::Case c; c.prop = g_prop;
    if (g_prop == "C19" || g_prop == "C18") {
        c.h = {1};
        c.blob.assign(reinterpret_cast<const char *>(data), size);
    } else if (g_prop == "C17") {
        // [mode][pre-existing selector][read mode][flush] [n ops] then n x 4 op bytes (kind mod 10), the rest is the file content
        if (size < 5) return 0;
        c.h = {data[0] % 4, data[1], data[2] % 2, 0, 0, data[3] & 3};
        size_t n = data[4] % 25, i = 5;
        for (size_t k = 0; k < n && i + 4 <= size; ++k, i += 4) c.ops.push_back(vf::Op{data[i] % 10, data[i + 1], data[i + 2] * 32 + data[i + 1], data[i + 3]});
        c.blob.assign(reinterpret_cast<const char *>(data + i), size - i);
    } else {
        if (size < 2) return 0;
        c.h = {data[0] % 3, g_tier};
        for (size_t i = 2; i + 4 <= size; i += 4) c.ops.push_back(vf::Op{data[i] % g_nk, data[i + 1], data[i + 2], data[i + 3]});
    }
    vf::exec_case(c);
    vf::finish_ok();
    return 0;
}
