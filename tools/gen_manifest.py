#!/usr/bin/env python3
"""Regenerates /verif/MANIFEST.json from the table below and the set of checks that exist
(a property is claimed iff engine/budgets.py has a budget or custom runner for it)."""
import json, os, sys
VERIF = os.path.dirname(os.path.dirname(os.path.abspath(__file__)))
sys.path.insert(0, os.path.join(VERIF, "engine"))
import budgets, build  # noqa

TECH = {
    "C01": ("generated thread programs + generated schedules under a controlled scheduler (pthread interposition); invariant oracle over holder counters",
            "DESIGN.md 5/C01", "controlled scheduler models pthread mutex/condvar itself (sequential consistency, pre-emption at synchronisation operations and harness yields); programs of <= 8 threads"),
    "C02": ("generated thread programs + schedules under the controlled scheduler; deadlock is a definite outcome (no enabled thread); idle probe after join",
            "DESIGN.md 5/C02", "as C01; liveness is decided as deadlock-freedom of finite programs"),
    "C03": ("generated thread programs + schedules under the controlled scheduler; invariant over the event log (parked-before-call implies return order)",
            "DESIGN.md 5/C03", "as C01; 'already waiting' = observed parked on the lock's condition variable before the later call was issued"),
    "C04": ("stateful property-based testing (rapidcheck histories, interpretive op decoding) against a std::deque reference model; ASan/UBSan",
            "DESIGN.md 5/C04", "std::deque as model; bitwise relocatable element types; histories of <= 120 (quick) / 400 (thorough) ops over 4 buffers"),
    "C05": ("stateful property-based testing against a reference model of subscriptions with sentinel-tracked observer lifetimes; ASan",
            "DESIGN.md 5/C05", "handles are only used after isValid() as every real caller does; passive callbacks (re-entrancy is C10)"),
    "C06": ("generated key trees, patterns (regex AST) and argument signatures; independent level-by-level matcher as oracle; exact receiver/argument log",
            "DESIGN.md 5/C06", "own matcher on a small regex AST; explicit matching template arguments as the header requires"),
    "C07": ("generated owner programs + schedules under the controlled scheduler; invariant over the task event log (run/destroy exactly-once, order)",
            "DESIGN.md 5/C07", "as C01; non-expiring workers as quantified; single owner thread"),
    "C08": ("generated owner programs + schedules under the controlled scheduler; deadlock outcome + post-stop state oracle",
            "DESIGN.md 5/C08", "as C07"),
    "C09": ("stateful property-based testing with a lifetime registry (serial-numbered elements), allocator-hook accounting and ASan",
            "DESIGN.md 5/C09", "moved-from shells left by pop_* tolerated as pinned by RingBufferEfficiencyTest"),
    "C10": ("generated re-entrant callback scripts; reference simulation of notification rounds as oracle; ASan for memory safety",
            "DESIGN.md 5/C10", "callbacks follow the capture discipline (never touch captures after an action that may destroy the observer)"),
    "C11": ("generated multi-thread router programs + schedules under the controlled scheduler; exclusion events, linearizability necessary conditions, ASan",
            "DESIGN.md 5/C11", "as C01; callbacks do not call back into the router (as quantified)"),
    "C12": ("generated reader programs + schedules under the controlled scheduler; no-park invariant and rendezvous-must-not-deadlock oracle",
            "DESIGN.md 5/C12", "as C01"),
    "C13": ("stateful property-based testing; metamorphic oracle (probe deliveries before == after shrink) + stored-key model with own matcher",
            "DESIGN.md 5/C13", "own matcher on a small regex AST; finite key universe"),
    "C14": ("stateful property-based testing against a std::vector reference model with lifetime registry, allocator-hook accounting and ASan",
            "DESIGN.md 5/C14", "bitwise relocatable element types; uninitialised int slots are never compared"),
    "C15": ("generated free-running stress programs with ThreadSanitizer as the oracle",
            "DESIGN.md 5/C15", "TSan is happens-before based and only sees pairs of accesses that execute in a run; free-running scheduler"),
    "C16": ("stateful property-based testing against a reference model (value, equality) of notifications, incl. re-entrant (write-back) subscribers",
            "DESIGN.md 5/C16", "model computes with the same C++ arithmetic; bounded values (no signed overflow, no division by zero)"),
    "C17": ("generated contents/chunkings/operation sequences; round-trip + byte/position model + std::filesystem differential",
            "DESIGN.md 5/C17", "POSIX only; std::filesystem and std::ifstream trusted"),
    "C18": ("generated directory trees and path strings; std::filesystem differential + string laws; ASan",
            "DESIGN.md 5/C18", "POSIX only; no symlinks/special files as quantified"),
    "C19": ("structured string generation (table entries, near misses, structure breakers, long parts), 5-call histories per case (metamorphic: the answer does not depend on earlier calls) + libFuzzer; independent table lookup oracle, ASan, poison-filled result",
            "DESIGN.md 5/C19", "tables are the public LocaleInfo::languageInfo/countryInfo arrays"),
    "C20": ("generated callable kinds + schedules + injected thread-creation faults (EAGAIN) under the controlled scheduler; liveness / moved-from canary + ASan stack-use-after-return + event order oracle",
            "DESIGN.md 5/C20", "as C01; argument lvalues outlive the thread"),
}


def main():
    claimed = set(budgets.BUDGET) | set(getattr(budgets, "CUSTOM", {}))
    checks, na = [], []
    for pid in sorted(TECH):
        tech, ref, note = TECH[pid]
        if pid in claimed:
            checks.append({
                "property_id": pid,
                "quick_cmd": "./check %s --tier quick" % pid,
                "thorough_cmd": "./check %s --tier thorough" % pid,
                "evidence_file": "/verif/evidence/%s.json" % pid,
                "replay_cmd_template": "./check %s --replay {path}" % pid,
                "engine": "pbt-" + build.PROP_GROUP[pid],
                "level_claimed": {"category": "exploration",
                                  "text": "The property held on every generated case explored (counts and non-trivial share in the evidence); "
                                          "failures are shrunk to a minimal replay file. Absence is not established.",
                                  "design_ref": ref},
                "level_note": note,
                "technique": tech + ("; thorough tier adds a systematic enumeration of all schedules with <= k pre-emptions over a small listed program space" if pid in getattr(budgets, "ENUM", {}) else "")
                             + ("; thorough tier adds a coverage-guided libFuzzer campaign on the same executor and oracle" if pid in getattr(budgets, "FUZZ", {}) else ""),
            })
        else:
            na.append({"property_id": pid, "reason": "check under construction in this session (design in %s); not claimed until its executor is committed" % ref})
    man = {
        "version": 1,
        "setup_cmd": "python3 engine/build.py setup",
        "hooks": {"guard": "TULZ_VERIF", "enable": "no source hook exists in congard/tulz: the checks compile the unmodified sources (with -DTULZ_VERIF, which nothing in the tree tests) and interpose the pthread API from the test executable",
                  "baseline_off_cmd": "cmake --build /repo/_build && ctest --test-dir /repo/_build -j8 --timeout 900",
                  "source_commits": [], "add_only": True},
        "engines": [{"name": "pbt-" + g, "path": "/verif/props/%s" % g, "serves_properties": d["props"],
                     "kind_free_text": "rapidcheck driver + forked sanitizer executor" + (" + controlled scheduler" if d["vsched"] else "")}
                    for g, d in build.GROUPS.items() if os.path.exists(os.path.join(VERIF, "props", g, "exec.cpp"))],
        "checks": checks,
        "not_applicable": na,
        "notes": "All commands run from /verif and rebuild their executor from the working tree named by VERIF_REPO (default /repo) when its content hash changed. "
                 "Exit 3 = internal error of the machinery (never a verdict). known_findings.txt lists repaired defects (fixed:) and, if any, open ones (known:).",
    }
    with open(os.path.join(VERIF, "MANIFEST.json"), "w") as f:
        json.dump(man, f, indent=1)
    print("claimed:", " ".join(c["property_id"] for c in checks))
    print("not claimed:", " ".join(n["property_id"] for n in na))


if __name__ == "__main__":
    main()
