#!/usr/bin/env python3
"""Sensitivity experiments: run checks against a scratch worktree of /repo with a patch applied.

  tools/mutant.py --patch seeded/C04-m1/patch.diff --props C04 C09 [--tier quick] [--seed 1] [--keep]
  tools/mutant.py --revert <commit> --props C09        (re-introduces the defect repaired by a fix: commit)

The worktree lives under /tmp/mut and is removed (with its build output under /verif/build/<key>) afterwards.
Nothing is ever applied to /repo itself.
"""
import argparse, hashlib, os, shutil, subprocess, sys, json, time

VERIF = os.path.dirname(os.path.dirname(os.path.abspath(__file__)))

def sh(cmd, **kw):
    return subprocess.run(cmd, stdout=subprocess.PIPE, stderr=subprocess.STDOUT, text=True, **kw)

def main():
    ap = argparse.ArgumentParser()
    ap.add_argument("--patch"); ap.add_argument("--revert"); ap.add_argument("--base", default="HEAD")
    ap.add_argument("--props", nargs="+", required=True)
    ap.add_argument("--tier", default="quick"); ap.add_argument("--seed", default="1")
    ap.add_argument("--keep", action="store_true"); ap.add_argument("--name")
    a = ap.parse_args()
    name = a.name or hashlib.sha1((str(a.patch) + str(a.revert) + str(time.time())).encode()).hexdigest()[:10]
    wt = "/tmp/mut/" + name
    os.makedirs("/tmp/mut", exist_ok=True)
    r = sh(["git", "-C", "/repo", "worktree", "add", "-q", "--detach", wt, a.base])
    if r.returncode: print(r.stdout); sys.exit(3)
    try:
        if a.patch:
            r = sh(["git", "-C", wt, "apply", os.path.abspath(a.patch)])
            if r.returncode: print("patch does not apply:\n" + r.stdout); sys.exit(3)
        if a.revert:
            d = sh(["git", "-C", "/repo", "diff", a.revert + "^", a.revert]).stdout
            r = subprocess.run(["git", "-C", wt, "apply", "-R"], input=d, text=True, stdout=subprocess.PIPE, stderr=subprocess.STDOUT)
            if r.returncode: print("cannot revert:\n" + r.stdout); sys.exit(3)
        results = {}
        for p in a.props:
            env = dict(os.environ, VERIF_REPO=wt, VERIF_SEED=a.seed)
            t0 = time.time()
            r = sh([os.path.join(VERIF, "check"), p, "--tier", a.tier], env=env)
            viol = [l for l in r.stdout.splitlines() if l.startswith("VIOLATION") or l.startswith("  class:") or l.startswith("INTERNAL")]
            results[p] = dict(exit=r.returncode, wall=round(time.time() - t0, 1), lines=viol)
            print("%s exit=%d wall=%.0fs %s" % (p, r.returncode, time.time() - t0, " | ".join(viol)), flush=True)
            if r.returncode == 3: print(r.stdout[-3000:])
        caught = [p for p, v in results.items() if v["exit"] == 1]
        print("SUMMARY %s caught_by=%s" % (a.patch or a.revert, ",".join(caught) or "NONE"))
    finally:
        if not a.keep:
            sh(["git", "-C", "/repo", "worktree", "remove", "--force", wt])
            key = hashlib.sha256(os.path.abspath(wt).encode()).hexdigest()[:12]
            shutil.rmtree(os.path.join(VERIF, "build", key), ignore_errors=True)

if __name__ == "__main__":
    main()
