#!/usr/bin/env python3
"""Prints a markdown table of what the committed evidence files say (one row per property)."""
import glob, json, os
VERIF = os.path.dirname(os.path.dirname(os.path.abspath(__file__)))
print("| id | tier | seed | cases | distinct non-trivial | ops skipped by decoding | libFuzzer execs | enumerated schedules (exhaustive in scope) | wall s |")
print("|---|---|---|---|---|---|---|---|---|")
for f in sorted(glob.glob(os.path.join(VERIF, "evidence", "C*.json"))):
    e = json.load(open(f)); c = e["coverage"]
    fz = c.get("libfuzzer", {}).get("executions", "")
    en = c.get("small_scope_enumeration")
    ens = "%d over %d programs (%s)" % (en["schedules_run"], en["programs"], "yes" if en["exhaustive"] else "no") if en else ""
    tot = c.get("ops_executed", 0) + c.get("ops_skipped_by_decoding", 0)
    sk = "%d%%" % round(100.0 * c.get("ops_skipped_by_decoding", 0) / tot) if tot else ""
    print("| %s | %s | %d | %d | %d | %s | %s | %s | %d |" % (e["property_id"], e["tier"], e["seed"], c["evaluations"], c["distinct_nontrivial"], sk, fz, ens, e["wall_s"]))
