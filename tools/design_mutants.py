#!/usr/bin/env python3
"""Design mutants (DESIGN.md section 5, "M" lists): small source changes that break a property while compiling.
Each is a (name, file, old, new, properties that should notice) entry; this script materialises every mutant as
/verif/seeded/design/<name>.diff from a scratch worktree of /repo HEAD, and (with --run) runs the named checks on it.

  tools/design_mutants.py --make            write the patch files
  tools/design_mutants.py --run [name ...]  run the checks against each mutant, append to seeded/design/RESULTS.txt
"""
import os, subprocess, sys

VERIF = os.path.dirname(os.path.dirname(os.path.abspath(__file__)))
OUT = os.path.join(VERIF, "seeded", "design")
RB = "include/tulz/container/RingBuffer.h"
AR = "include/tulz/container/Array.h"
SJ = "include/tulz/observer/Subject.h"
OB = "include/tulz/observer/Observable.h"
RS = "src/threading/rwp/Resource.cpp"
TP = "src/threading/ThreadPool.cpp"
TH = "include/tulz/threading/Thread.h"
THC = "src/threading/Thread.cpp"
SR = "include/tulz/observer/routing/SubjectRouter.h"
SRC = "src/observer/routing/SubjectRouter.cpp"
RLV = "src/observer/routing/RoutingLevelView.cpp"
FL = "src/File.cpp"
PT = "src/Path.cpp"
DV = "src/DirectoryVisitor.cpp"
LI = "src/LocaleInfo.cpp"

M = [
    # ---- C04 / C09 RingBuffer
    ("ring_modcap_no_plus_b", RB, "return ((a % b) + b) % b;", "return a % b;", "C04 C09"),
    ("ring_overwrite_back_head_first", RB, "            m_data[m_pos] = T(std::forward<Args>(args)...);\n            m_pos = modCap(m_pos + 1);", "            m_pos = modCap(m_pos + 1);\n            m_data[m_pos] = T(std::forward<Args>(args)...);", "C04"),
    ("ring_silentcopy_second_part_from_1", RB, "std::memcpy(dst + n1, m_data + modCap(m_pos + n1), n2 * sizeof(T));", "std::memcpy(dst + n1, m_data + 1, n2 * sizeof(T));", "C04 C09"),
    ("ring_resize_branch_le", RB, "if (m_pos <= lastIndex && lastIndex < newCapacity) {", "if (m_pos <= lastIndex && lastIndex <= newCapacity) {", "C04 C09"),
    ("ring_pop_back_reads_after_wrong_index", RB, "        --m_size;\n        return std::move(m_data[dataIndex(m_size)]);", "        --m_size;\n        return std::move(m_data[dataIndex(m_size - 1 + (m_size == 0))]);", "C04"),
    ("ring_dtor_physical_range", RB, "    ~RingBuffer() {\n        for (T &element : *this)\n            element.~T();", "    ~RingBuffer() {\n        for (size_t i = 0; i < m_size; ++i)\n            m_data[i].~T();", "C09"),
    ("ring_overwrite_placement_new", RB, "            m_data[m_pos] = T(std::forward<Args>(args)...);\n            m_pos = modCap(m_pos + 1);", "            new (&m_data[m_pos]) T(std::forward<Args>(args)...);\n            m_pos = modCap(m_pos + 1);", "C09"),
    ("ring_pop_front_destroys_shell", RB, "        auto element = std::move(m_data[m_pos]);\n        m_pos = modCap(m_pos + 1);", "        auto element = std::move(m_data[m_pos]);\n        m_data[m_pos].~T();\n        m_pos = modCap(m_pos + 1);", "C09"),
    ("ring_copy_assign_keeps_pos", RB, "        m_pos = 0;\n        m_size = other.m_size;", "        m_pos = other.m_pos;\n        m_size = other.m_size;", "C04 C09"),
    ("ring_equal_ignores_size", RB, "return std::equal(begin(), end(), other.begin(), other.end());", "return std::equal(begin(), end(), other.begin());", "C04"),
    ("ring_emplace_front_full_check_after", RB, "        m_pos = modCap(m_pos - 1);\n\n        if (full()) {", "        if (full()) {\n            m_pos = modCap(m_pos - 1);", "C04 C09"),
    # ---- C14 Array
    ("array_shallow_copy_ctor", AR, "        m_size = src.m_size;\n        m_array = static_cast<T*>(malloc(m_size * sizeof(T)));\n\n        if constexpr (!std::is_class_v<T>) {\n            memcpy(m_array, src.m_array, m_size * sizeof(T));",
     "        m_size = src.m_size;\n        m_array = static_cast<T*>(malloc(m_size * sizeof(T)));\n\n        if constexpr (true) {\n            memcpy(m_array, src.m_array, m_size * sizeof(T));", "C14"),
    ("array_resize_forgets_destroy", AR, "    void resize(size_t size) {\n        destroy(size, m_size);\n", "    void resize(size_t size) {\n", "C14"),
    ("array_resize_value_initialises_wrong_range", AR, "            for (size_t i = m_size; i < size; ++i) {\n                new (&m_array[i]) T(value);", "            for (size_t i = m_size + 1; i < size; ++i) {\n                new (&m_array[i]) T(value);", "C14"),
    ("array_move_ctor_no_swap", AR, "    Array(Array<T> &&src) noexcept {\n        src.swap(*this);", "    Array(Array<T> &&src) noexcept {\n        m_array = src.m_array; m_size = src.m_size;", "C14"),
    ("array_fill_ctor_off_by_one", AR, "        for (size_t i = 0; i < size; ++i) {\n            new (&m_array[i]) T(value);\n        }\n    }\n\n    Array() = default;", "        for (size_t i = 1; i < size; ++i) {\n            new (&m_array[i]) T(value);\n        }\n        if (size) new (&m_array[0]) T();\n    }\n\n    Array() = default;", "C14"),
    # ---- C05 / C10 Subject
    ("subject_newest_first", SJ, "            cachedDetails.emplace_front(details.observer.get(), details.subscriptionId);", "            cachedDetails.emplace_after(cachedDetails.before_begin(), details.observer.get(), details.subscriptionId), cachedDetails.reverse();", "C05 C10"),
    ("subject_skip_id_recheck", SJ, "            if (isSubscriptionIdValid(subscriptionId)) {\n                (*observer)(args...);", "            if (true) {\n                (*observer)(args...);", "C10"),
    ("subject_unsubscribe_keeps_handle", SJ, "        subscription.m_id = InvalidSubscriptionId;\n        subscription.m_subject = nullptr;\n        subscription.m_observer = nullptr;", "        subscription.m_observer = nullptr;", "C05"),
    ("subject_erase_set_not_list", SJ, "        m_observers.remove_if([subscriptionId](const ObserverDetails &details) {\n            return details.subscriptionId == subscriptionId;\n        });\n", "", "C05 C10"),
    ("subject_iterate_live_list", SJ, "        for (auto [observer, subscriptionId] : cachedDetails) {", "        cachedDetails.clear();\n        for (auto &live : m_observers) {\n            auto observer = live.observer.get(); auto subscriptionId = live.subscriptionId;", "C05 C10"),
    ("observer_mute_ignored", "include/tulz/observer/Observer.h", "if (!isMuted() && isValid()) {", "if (isValid()) {", "C05 C10"),
    ("subject_foreign_handle_accepted", SJ, "return subscription.m_subject == this && isSubscriptionIdValid(subscription.getId());", "return isSubscriptionIdValid(subscription.getId());", "C05"),
    # ---- C16 Observable
    ("observable_notify_before_store", OB, "            m_val = std::forward<V>(val);\n            m_subject.notify(m_val);", "            m_subject.notify(m_val);\n            m_val = std::forward<V>(val);", "C16"),
    ("observable_apply_compares_new_with_new", OB, "        if (!m_eq(old, m_val)) {", "        if (!m_eq(m_val, m_val)) {", "C16"),
    ("observable_predec_no_notify", OB, "    T& operator--() {\n        --m_val;\n        m_subject.notify(m_val);", "    T& operator--() {\n        --m_val;", "C16"),
    ("observable_postinc_returns_new", OB, "        auto prev = m_val;\n        ++m_val;\n        m_subject.notify(m_val);\n        return prev;", "        auto prev = m_val;\n        ++m_val;\n        m_subject.notify(m_val);\n        return m_val;", "C16"),
    ("observable_assign_always_stores", OB, "        if (!m_eq(m_val, val)) {\n            m_val = std::forward<V>(val);\n            m_subject.notify(m_val);\n        }", "        const bool changed = !m_eq(m_val, val);\n        m_val = std::forward<V>(val);\n        if (changed) m_subject.notify(m_val);", "C16"),
    # ---- C01 C02 C03 C12 Resource
    ("res_fast_path_ignores_queue", RS, "if (m_queue.empty() && (m_activeOp == OpType::None || (m_activeOp == opType && opType == OpType::Read))) {", "if ((m_queue.empty() && m_activeOp == OpType::None) || (m_activeOp == opType && opType == OpType::Read)) {", "C03"),
    ("res_select_every_unlock", RS, "    if (--m_activeCount == 0) {", "    --m_activeCount;\n    if (true) {", "C01"),
    ("res_notify_one", RS, "        m_cv.notify_all();", "        m_cv.notify_one();", "C02"),
    ("res_no_notify", RS, "        m_mutex.unlock();\n        m_cv.notify_all();", "        m_mutex.unlock();", "C02"),
    ("res_select_from_back", RS, "    auto op = m_queue.front();\n    m_queue.pop_front();", "    auto op = m_queue.back();\n    m_queue.pop_back();", "C03 C01"),
    ("res_enqueue_merge_across_writer", RS, "        if (auto &op = m_queue.back(); op.type == OpType::Read) {\n            op.upperBound = m_idCounter;\n        } else {", "        if (auto &op = m_queue.front(); op.type == OpType::Read && m_queue.size() > 1) {\n            op.upperBound = m_idCounter;\n        } else if (auto &op = m_queue.back(); op.type == OpType::Read) {\n            op.upperBound = m_idCounter;\n        } else {", "C03 C01"),
    ("res_readers_one_at_a_time", RS, "        if (auto &op = m_queue.back(); op.type == OpType::Read) {\n            op.upperBound = m_idCounter;\n        } else {", "        if (false) {\n        } else {", "C12"),
    ("res_fast_path_only_when_idle", RS, "if (m_queue.empty() && (m_activeOp == OpType::None || (m_activeOp == opType && opType == OpType::Read))) {", "if (m_queue.empty() && m_activeOp == OpType::None) {", "C12"),
    ("res_no_reset_idcounter", RS, "        m_idCounter = 0;\n        m_upperUnlockBound = 0;", "        m_upperUnlockBound = 0;", "C02"),
    # ---- C07 C08 ThreadPool
    ("pool_run_before_erase", TP, "            auto qFront = queue.begin();\n            runnable = *qFront;\n            queue.erase(qFront);\n        }\n\n        runnable->run();", "            auto qFront = queue.begin();\n            runnable = *qFront;\n        }\n\n        runnable->run();\n        {\n            std::unique_lock locker(m_threadPool->m_queueMutex);\n            auto &queue = m_threadPool->m_queue;\n            if (!queue.empty() && queue.front() == runnable) queue.erase(queue.begin()); else continue;\n        }", "C07"),
    ("pool_clear_without_mutex", TP, "void ThreadPool::clear() {\n    std::scoped_lock locker(m_queueMutex);\n", "void ThreadPool::clear() {\n", "C15"),
    ("pool_delete_before_run", TP, "        runnable->run();\n\n        m_pooledThread->setLastActiveTime(time());\n\n        delete runnable;", "        delete runnable;\n        runnable->run();\n\n        m_pooledThread->setLastActiveTime(time());", "C07"),
    ("pool_lifo_dequeue", TP, "            auto qFront = queue.begin();\n            runnable = *qFront;\n            queue.erase(qFront);", "            auto qFront = std::prev(queue.end());\n            runnable = *qFront;\n            queue.erase(qFront);", "C07"),
    ("pool_stop_no_notify", TP, "    m_condition.notify_all();\n\n    {\n        std::scoped_lock locker(m_poolMutex);\n\n        for (auto thread : m_pool) {\n            thread->join();", "    {\n        std::scoped_lock locker(m_poolMutex);\n\n        for (auto thread : m_pool) {\n            thread->join();", "C08"),
    ("pool_spawn_ge", TP, "if ((m_maxThreadCount > m_pool.size() || m_maxThreadCount < 0)", "if ((m_maxThreadCount >= m_pool.size() || m_maxThreadCount < 0)", "C08"),
    ("pool_stop_keeps_queue", TP, "        m_pool.clear();\n    }\n\n    clear();\n}", "        m_pool.clear();\n    }\n}", "C08 C07"),
    ("pool_worker_ignores_stop_when_work", TP, "            if (!m_threadPool->isRunning())\n                return;\n", "            if (!m_threadPool->isRunning() && queue.empty())\n                return;\n", "C07 C08"),
    # ---- C20 Thread
    ("thread_finished_before_call", TH, "            ptr(std::forward<Args>(args)...);\n            m_isFinished = true;", "            m_isFinished = true;\n            ptr(std::forward<Args>(args)...);", "C20"),
    ("thread_call_twice", TH, "            ptr(std::forward<Args>(args)...);\n            m_isFinished = true;", "            ptr(std::forward<Args>(args)...);\n            if (sizeof...(Args) == 0) ptr(std::forward<Args>(args)...);\n            m_isFinished = true;", "C20"),
    ("thread_delete_runnable_before_run", THC, "        runnable->run();\n        delete runnable;", "        delete runnable;\n        runnable->run();", "C20"),
    ("thread_runnable_not_deleted", THC, "        runnable->run();\n        delete runnable;", "        runnable->run();", "C20"),
    # ---- C06 C13 router
    ("router_regex_search", RLV, "return std::regex_match(levelName.begin(), levelName.end(), *regex);", "return std::regex_search(levelName.begin(), levelName.end(), *regex);", "C06 C13"),
    ("router_no_leaf_check", SR, "    if (levelView.isLeaf()) {\n        if (m_subject != nullptr) {", "    if (m_subject != nullptr && (levelView.isLeaf() || levelView.isRegex())) {\n        if (levelView.isLeaf() || true) {", "C06"),
    ("router_first_matching_child_only", SR, "            for (auto & [name, node] : m_children)\n                notifyCount += node.template notify<Args...>(nextLevel, static_cast<Args>(args)...);", "            for (auto & [name, node] : m_children) {\n                notifyCount += node.template notify<Args...>(nextLevel, static_cast<Args>(args)...);\n                if (notifyCount) break;\n            }", "C06"),
    ("router_isempty_ignores_children", SRC, "return (m_subject == nullptr || !m_subject->hasSubscriptions()) && m_children.empty();", "return (m_subject == nullptr || !m_subject->hasSubscriptions());", "C13 C06"),
    ("router_erase_before_recursing", SRC, "    // shrink the next level first\n    if (!levelView.isLeaf()) {", "    std::erase_if(m_children, [](auto &p) {\n        return p.second.isEmpty();\n    });\n    if (!levelView.isLeaf() && false) {", "C13"),
    ("router_exists_only_with_subject", SRC, "    if (levelView.isLeaf())\n        return true;", "    if (levelView.isLeaf())\n        return m_subject != nullptr || m_name.empty();", "C13"),
    ("router_depth_off_by_one", SRC, "    return 1 + maxDepth;", "    return m_children.empty() ? 1 : 2 + maxDepth - 1 + (maxDepth > 1);", "C13"),
    ("router_shrink_unvisited_children", SRC, "            if (auto it = m_children.find(nextLevel.asString()); it != m_children.end()) {\n                it->second.shrink(nextLevel);\n            }", "            for (auto & [name, node] : m_children) {\n                node.shrink(RoutingLevelView(RoutingKey(levelView)));\n            }", ""),
    # ---- C17 File
    ("file_eof_by_char", FL, "            fgetc(m_file);\n            return feof(m_file);", "            char ch = fgetc(m_file);\n            return ch == EOF;", "C17"),
    ("file_size_no_seek_back", FL, "    size_t fileSize = tell();\n    fseek(m_file, prevPos, SEEK_SET);", "    size_t fileSize = tell();", "C17"),
    ("file_append_opened_w", FL, '            case Mode::Append: return "ab";', '            case Mode::Append: return "wb";', "C17"),
    ("file_write_returns_bytes", FL, "    return fwrite(data, elementSize, size, m_file);", "    return fwrite(data, 1, size * elementSize, m_file);", "C17"),
    ("file_directory_check_dropped", FL, "    if (path.exists() && path.isDirectory())\n        throw Exception(pathStr + \" is not file, it is directory\", Path::NotFile);", "", "C17"),
    # ---- C18 Path / DirectoryVisitor
    ("path_size_not_recursive", PT, "            size += Path::join(*this, child).size();", "            if (Path::join(*this, child).isFile()) size += Path::join(*this, child).size();", "C18"),
    ("path_list_skips_dotfiles", PT, '        if (strcmp(name, ".") == 0 || strcmp(name, "..") == 0) {\n            continue;\n        }\n\n        result.emplace_front(name);\n    }\n\n    closedir(dir);', '        if (name[0] == \'.\') {\n            continue;\n        }\n\n        result.emplace_front(name);\n    }\n\n    closedir(dir);', "C18"),
    ("path_pathname_size_minus_1", PT, 'index = m_path.find_last_of("/\\\\", m_path.size() - 2);', 'index = m_path.find_last_of("/\\\\", m_path.size() - 1);', "C18"),
    ("path_join_always_separator", PT, "    if (p1.back() != Separator && p1.back() != SystemSeparator)\n        return p1 + SystemSeparator + p2;\n\n    return p1 + p2;", "    return p1 + SystemSeparator + p2;", "C18"),
    ("visitor_restore_needs_existing_dir", DV, "    if (!m_oldDir.toString().empty()) {", "    if (!m_oldDir.toString().empty() && m_dir.isDirectory()) {", "C18"),
    ("path_join_absolute_ignored", PT, "    if (isAbsolutePath(p2))\n        return p2;\n", "", "C18"),
    ("path_parent_keeps_trailing", PT, "    if (separatorPos != string::npos && separatorPos == path.size() - 1) {\n        path.erase(separatorPos, path.size());\n        separatorPos = path.find_last_of(\"/\\\\\");\n    }", "", "C18"),
    # ---- C19 LocaleInfo
    ("locale_by_code_break", LI, "            if (strcmp(inf.code, buffer) == 0) {\n                result.languageCode = inf.code;\n                result.languages.emplace_back(inf.value);\n            } else if", "            if (strcmp(inf.code, buffer) == 0) {\n                result.languageCode = inf.code;\n                result.languages.emplace_back(inf.value);\n                break;\n            } else if", "C19"),
    ("locale_fallback_without_error", LI, '    result.error = "Locale cannot be found";', "", "C19"),
    ("locale_buffer_bound_le", LI, "static_cast<size_t>(dotDelim - delim - 1) < sizeof(buffer);", "static_cast<size_t>(dotDelim - delim - 1) <= sizeof(buffer) + 8;", "C19"),
    ("locale_last_dot", LI, 'auto dotDelim = strstr(locale, ".");', "auto dotDelim = strrchr(locale, '.');", "C19"),
    ("locale_country_code_only", LI, "if (strcmp(inf.code, buffer) == 0 || strcmp(inf.value, buffer) == 0) {\n                result.countryCode", "if (strcmp(inf.code, buffer) == 0) {\n                result.countryCode", "C19"),
]


def sh(cmd, **kw):
    return subprocess.run(cmd, stdout=subprocess.PIPE, stderr=subprocess.STDOUT, text=True, **kw)


def make():
    os.makedirs(OUT, exist_ok=True)
    wt = "/tmp/mut/design-make"
    sh(["git", "-C", "/repo", "worktree", "remove", "--force", wt])
    r = sh(["git", "-C", "/repo", "worktree", "add", "-q", "--detach", wt, "HEAD"])
    assert r.returncode == 0, r.stdout
    bad = []
    try:
        for name, f, old, new, props in M:
            p = os.path.join(wt, f)
            src = open(p).read()
            if src.count(old) < 1:
                bad.append(name); continue
            open(p, "w").write(src.replace(old, new, 1))
            d = sh(["git", "-C", wt, "diff"]).stdout
            open(os.path.join(OUT, name + ".diff"), "w").write(d)
            open(p, "w").write(src)
    finally:
        sh(["git", "-C", "/repo", "worktree", "remove", "--force", wt])
    print("written %d mutants; not applicable: %s" % (len(M) - len(bad), bad))


def run(names):
    res = os.path.join(OUT, "RESULTS.txt")
    for name, f, old, new, props in M:
        if names and name not in names:
            continue
        if not props:
            continue
        r = sh([os.path.join(VERIF, "tools", "mutant.py"), "--patch", os.path.join(OUT, name + ".diff"), "--props"] + props.split())
        last = [l for l in r.stdout.splitlines() if l.startswith("SUMMARY") or "INTERNAL" in l or "does not apply" in l]
        line = "%-45s expected=%-12s %s" % (name, props, " | ".join(last))
        print(line, flush=True)
        with open(res, "a") as fh:
            fh.write(line + "\n")


if __name__ == "__main__":
    if "--make" in sys.argv:
        make()
    if "--run" in sys.argv:
        run([a for a in sys.argv[sys.argv.index("--run") + 1:] if not a.startswith("--")])
