#!/bin/bash
# tools/verify_seed.sh <seed dir with patch.diff, run.sh, demo.*> <name>
# Confirms, in a scratch worktree of /repo HEAD: (a) the patch applies, the pinned suite builds and passes with it
# (flaky ResourceTest cases excluded), (b) the demonstration fails with it, (c) passes without it.
# Prints one JSON line; removes the worktree and its build output.
set -u
SEED=$(realpath "$1"); NAME=$2
WT=/tmp/vs/$NAME; CLEAN=/tmp/vs/$NAME-clean
mkdir -p /tmp/vs
git -C /repo worktree add -q --detach "$WT" HEAD || exit 3
git -C /repo worktree add -q --detach "$CLEAN" HEAD || exit 3
res() { echo "{\"seed\": \"$NAME\", \"applies\": $1, \"suite\": \"$2\", \"demo_with\": \"$3\", \"demo_without\": \"$4\"}"; }
cleanup() { git -C /repo worktree remove --force "$WT"; git -C /repo worktree remove --force "$CLEAN"; }
if ! git -C "$WT" apply "$SEED/patch.diff" 2>/tmp/vs/$NAME.apply.log; then res false - - -; cleanup; exit 0; fi
# (a) suite
suite=fail
if cmake -S "$WT" -B "$WT/_b" -G Ninja -DCMAKE_BUILD_TYPE=RelWithDebInfo -DFETCHCONTENT_SOURCE_DIR_GOOGLETEST=/usr/src/googletest -DFETCHCONTENT_FULLY_DISCONNECTED=ON >/tmp/vs/$NAME.cmake.log 2>&1 \
   && cmake --build "$WT/_b" -j6 >>/tmp/vs/$NAME.cmake.log 2>&1; then
  if ctest --test-dir "$WT/_b" -j4 --timeout 900 -E ResourceTest >/tmp/vs/$NAME.ctest.log 2>&1 \
     && "$WT/_b/tests/ResourceTest" --gtest_filter='ResourceTest.SimultaneousRead' >>/tmp/vs/$NAME.ctest.log 2>&1; then suite=pass; fi
else suite=buildfail; fi
rm -rf "$WT/_b"
# (b)/(c) demonstration, 3 runs each
w=0; wo=0
for i in 1 2 3; do
  (cd "$SEED" && timeout 600 bash ./run.sh "$WT" >/tmp/vs/$NAME.with.$i.log 2>&1); [ $? -ne 0 ] && w=$((w+1))
  (cd "$SEED" && timeout 600 bash ./run.sh "$CLEAN" >/tmp/vs/$NAME.without.$i.log 2>&1); [ $? -eq 0 ] && wo=$((wo+1))
done
res true $suite "fails $w/3" "passes $wo/3"
cleanup
