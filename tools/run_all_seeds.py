#!/usr/bin/env python3
"""Runs the quick checks of the owning group(s) against every independently seeded change in /verif/seeded/Cxx-mK
and records the outcome in seeded/<id>/meta.json ("checks_run", "caught_by") and seeded/RESULTS.md.

  tools/run_all_seeds.py [id ...]
"""
import json, os, subprocess, sys, re

VERIF = os.path.dirname(os.path.dirname(os.path.abspath(__file__)))
sys.path.insert(0, os.path.join(VERIF, "engine"))
import build  # noqa

# checks to run per seeded change: every property of the same executor group, plus cross-group checks that are known to matter
EXTRA = {"C20": ["C15"], "C11": ["C15", "C01", "C02"], "C08": ["C15"], "C15": [], "C05": ["C10"], "C10": ["C05"], "C06": ["C13"], "C13": ["C06"]}


def props_for(pid):
    grp = build.PROP_GROUP[pid]
    out = list(build.GROUPS[grp]["props"])
    for e in EXTRA.get(pid, []):
        if e not in out:
            out.append(e)
    return out


def main():
    want = sys.argv[1:]
    ids = sorted(d for d in os.listdir(os.path.join(VERIF, "seeded")) if re.match(r"C\d\d-m\d$", d))
    verified = {}
    vr = os.path.join(VERIF, "seeded", "verification.jsonl")
    if os.path.exists(vr):
        for line in open(vr):
            try:
                j = json.loads(line); verified[j["seed"]] = j
            except Exception:
                pass
    for sid in ids:
        if want and sid not in want:
            continue
        pid = sid[:3]
        props = props_for(pid)
        r = subprocess.run([os.path.join(VERIF, "tools", "mutant.py"), "--patch", os.path.join(VERIF, "seeded", sid, "patch.diff"), "--props"] + props,
                           stdout=subprocess.PIPE, stderr=subprocess.STDOUT, text=True)
        caught, classes = [], {}
        for line in r.stdout.splitlines():
            m = re.match(r"(C\d\d) exit=(\d+) wall=\d+s (.*)", line)
            if m:
                if m.group(2) == "1":
                    caught.append(m.group(1))
                    cl = re.findall(r"class: ([^|]*)", m.group(3))
                    classes[m.group(1)] = sorted(set(c.strip()[:90] for c in cl))
                elif m.group(2) == "3":
                    classes[m.group(1)] = ["INTERNAL"]
        mp = os.path.join(VERIF, "seeded", sid, "meta.json")
        meta = json.load(open(mp))
        meta["breaks_property"] = pid
        meta["verified_by_me"] = verified.get(sid, {})
        meta["what_i_ran"] = "tools/verify_seed.sh (patch applies to /repo HEAD, pinned suite builds and passes with it, run.sh fails 3/3 with it and passes 3/3 without); " \
                             "tools/mutant.py --patch seeded/%s/patch.diff --props %s (quick tier, VERIF_SEED=1)" % (sid, " ".join(props))
        meta["checks_run"] = props
        meta["caught_by"] = caught
        meta["failure_classes"] = classes
        json.dump(meta, open(mp, "w"), indent=1)
        print("%s checks=%s caught_by=%s" % (sid, ",".join(props), ",".join(caught) or "NONE"), flush=True)


if __name__ == "__main__":
    main()
