#!/usr/bin/env python3
"""Writes seeded/RESULTS.md from seeded/<id>/meta.json (independent seeded changes) and seeded/design/RESULTS.txt."""
import json, os, re
VERIF = os.path.dirname(os.path.dirname(os.path.abspath(__file__)))
NOTES = {
    "C08-m2": "outside C08's quantifier: needs several client threads calling start() concurrently; the property speaks of submissions made by the owning thread",
    "C11-m2": "a data race (lock released before the critical work): reported by C15; invisible to C11 by construction (DESIGN.md section 5, C11 S)",
    "C02-m6": "needs 65536 tickets in one busy period: quick tier misses it by design; caught by C02 --tier thorough (long-busy-period shape, 66000 requests)",
    "C11-m6": "outside C11's quantifier: needs a second router and a callback that notifies it (C11 speaks of one router whose callbacks do not call back into the router)",
    "C14-m6": "the change is in File.cpp (text-mode read beyond 8 KiB), reached through C14's anchor list only nominally; caught by C17 (quick)",
    "C20-m3": "judged equivalent w.r.t. the literal property: isFinished() still becomes true only after run() returned and join() still returns after the Runnable was destroyed; "
              "only the order 'flag, then delete' vs 'delete, then flag' changes, which the property does not fix",
    "C20-m4": "a memory-ordering defect (relaxed store): invisible to the sequentially consistent scheduler of C20; reported by C15's Thread completion-flag family (ThreadSanitizer)",
    "C03-m7": "missed by the checks as they stood (needs 8+ queue entries): caught after the deep-queue shape (10-14 threads) was added",
    "C04-m7": "missed as the checks stood: caught after pushes whose argument aliases an element of the same buffer were added",
    "C06-m7": "missed as the checks stood (ASan's quarantine never re-uses a key's address): caught after the re-assigned RoutingKey variable was added",
    "C16-m7": "as the checks stood the C16 harness did not COMPILE against it (internal error, not a verdict): harness made signature-agnostic, clamping subscriber added",
    "C17-m7": "missed as the checks stood: caught after one File object was carried through read / write / read",
    "C18-m7": "missed as the checks stood (trees <= 4 deep): caught after the deep directory chain was added",
    "C20-m7": "missed as the checks stood (needs pthread_create to fail): caught after EAGAIN fault injection + moved-from canary were added",
    "C08-m7": "same root cause as C07-m7 (found independently by two agents): as the checks stood caught by C07 only (LOST_TASK); tasks lost after a restart are now attributed to C08 as well",
    "C02-m8": "caught through the assertion in unlock() (class owned by C01); C02's own deadlock needs the assertion compiled out",
    "C14-m8": "missed as the checks stood: caught after initializer lists were read twice",
    "C19-m8": "missed as the checks stood (one get() per process): caught after the call history of 5 and long resolvable names were added",
    "C11-m8": "as the checks stood caught by C15 and C01 only; C11 itself catches it since the writer-writer exclusion oracle was added",
    "ring_pop_front_destroys_shell": "equivalent w.r.t. C09: destroying the moved-from shell right away is at least as correct as leaving it",
    "pool_worker_ignores_stop_when_work": "equivalent w.r.t. C07/C08: workers drain the queue during stop(); no task starts after stop() returned, every task is destroyed once",
    "path_pathname_size_minus_1": "equivalent w.r.t. C18: only getPathName of a path WITH trailing separator changes; the stated law concerns join(d, n), which never ends in a separator",
    "path_parent_keeps_trailing": "equivalent w.r.t. C18: only getParentDirectory of a path with trailing separator changes (same reason)",
}
out = ["# Seeded changes and which checks catch them", "",
       "Quick tier, VERIF_SEED=1, run with tools/mutant.py against a scratch worktree of /repo HEAD with the patch applied.", "",
       "## Independent changes (sub-agents, property text only)", "",
       "| id | breaks | what it needs to manifest | checks run | caught by | failure classes | note |", "|---|---|---|---|---|---|---|"]
ids = sorted(d for d in os.listdir(os.path.join(VERIF, "seeded")) if re.match(r"C\d\d-m\d$", d))
n = c = 0
for sid in ids:
    m = json.load(open(os.path.join(VERIF, "seeded", sid, "meta.json")))
    caught = m.get("caught_by")
    if caught is None:
        continue
    caught = caught + [x + " (thorough)" for x in m.get("caught_by_thorough", [])] + m.get("caught_by_other_group", [])
    n += 1; c += bool(caught)
    cls = "; ".join("%s: %s" % (k, ", ".join(v)) for k, v in m.get("failure_classes", {}).items())
    needs = str(m.get("needs", "")).replace("|", "/").replace("\n", " ")[:260]
    out.append("| %s | %s | %s | %s | %s | %s | %s |" % (sid, m.get("breaks_property", sid[:3]), needs, " ".join(m.get("checks_run", [])), " ".join(caught) or "**none**", cls.replace("|", "/")[:300], NOTES.get(sid, "")))
out += ["", "%d of %d caught by at least one quick check." % (c, n), "", "## Design mutants (tools/design_mutants.py)", "", "| mutant | expected | caught by | note |", "|---|---|---|---|"]
rp = os.path.join(VERIF, "seeded", "design", "RESULTS.txt")
dn = dc = 0
if os.path.exists(rp):
    seen = {}
    for line in open(rp):
        w = line.split()
        if len(w) < 2: continue
        name = w[0]; exp = w[1].replace("expected=", ""); m = re.search(r"caught_by=(\S+)", line)
        seen[name] = (exp, m.group(1) if m else ("INTERNAL" if "INTERNAL" in line else "?"))
    for name, (exp, got) in seen.items():
        dn += 1; dc += got not in ("NONE", "?", "INTERNAL")
        out.append("| %s | %s | %s | %s |" % (name, exp, got if got != "NONE" else "**none**", NOTES.get(name, "")))
out += ["", "%d of %d caught." % (dc, dn), ""]
open(os.path.join(VERIF, "seeded", "RESULTS.md"), "w").write("\n".join(out))
print("independent: %d/%d, design: %d/%d" % (c, n, dc, dn))
