#!/usr/bin/env python3
"""Writes seeded/RESULTS.md from seeded/<id>/meta.json (independent seeded changes) and seeded/design/RESULTS.txt."""
import json, os, re
VERIF = os.path.dirname(os.path.dirname(os.path.abspath(__file__)))
NOTES = {
    "C08-m2": "outside C08's quantifier: needs several client threads calling start() concurrently; the property speaks of submissions made by the owning thread",
    "C11-m2": "a data race (lock released before the critical work): reported by C15; invisible to C11 by construction (DESIGN.md section 5, C11 S)",
    "C02-m6": "needs 65536 tickets in one busy period: quick tier misses it by design; caught by C02 --tier thorough (long-busy-period shape, 66000 requests)",
    "C11-m6": "outside C11's quantifier: needs a second router and a callback that notifies it (C11 speaks of one router whose callbacks do not call back into the router)",
    "C14-m6": "the change is in File.cpp (text-mode read beyond 8 KiB), reached through C14's anchor list only nominally; caught by C17 (quick)",
    "C20-m3": "judged equivalent w.r.t. the literal property: isFinished() still becomes true only after run() returned and join() still returns after the Runnable was destroyed; "
              "only the order 'flag, then delete' vs 'delete, then flag' changes, which the property does not fix",
    "C20-m4": "a memory-ordering defect (relaxed store): invisible to the sequentially consistent scheduler of C20; reported by C15's Thread completion-flag family (ThreadSanitizer)",
    "ring_pop_front_destroys_shell": "equivalent w.r.t. C09: destroying the moved-from shell right away is at least as correct as leaving it",
    "pool_worker_ignores_stop_when_work": "equivalent w.r.t. C07/C08: workers drain the queue during stop(); no task starts after stop() returned, every task is destroyed once",
    "path_pathname_size_minus_1": "equivalent w.r.t. C18: only getPathName of a path WITH trailing separator changes; the stated law concerns join(d, n), which never ends in a separator",
    "path_parent_keeps_trailing": "equivalent w.r.t. C18: only getParentDirectory of a path with trailing separator changes (same reason)",
}
out = ["# Seeded changes and which checks catch them", "",
       "Quick tier, VERIF_SEED=1, run with tools/mutant.py against a scratch worktree of /repo HEAD with the patch applied.", "",
       "## Independent changes (sub-agents, property text only)", "",
       "| id | breaks | what it needs to manifest | checks run | caught by | failure classes | note |", "|---|---|---|---|---|---|---|"]
ids = sorted(d for d in os.listdir(os.path.join(VERIF, "seeded")) if re.match(r"C\d\d-m\d$", d))
n = c = 0
for sid in ids:
    m = json.load(open(os.path.join(VERIF, "seeded", sid, "meta.json")))
    caught = m.get("caught_by")
    if caught is None:
        continue
    caught = caught + [x + " (thorough)" for x in m.get("caught_by_thorough", [])] + m.get("caught_by_other_group", [])
    n += 1; c += bool(caught)
    cls = "; ".join("%s: %s" % (k, ", ".join(v)) for k, v in m.get("failure_classes", {}).items())
    needs = str(m.get("needs", "")).replace("|", "/").replace("\n", " ")[:260]
    out.append("| %s | %s | %s | %s | %s | %s | %s |" % (sid, m.get("breaks_property", sid[:3]), needs, " ".join(m.get("checks_run", [])), " ".join(caught) or "**none**", cls.replace("|", "/")[:300], NOTES.get(sid, "")))
out += ["", "%d of %d caught by at least one quick check." % (c, n), "", "## Design mutants (tools/design_mutants.py)", "", "| mutant | expected | caught by | note |", "|---|---|---|---|"]
rp = os.path.join(VERIF, "seeded", "design", "RESULTS.txt")
dn = dc = 0
if os.path.exists(rp):
    seen = {}
    for line in open(rp):
        w = line.split()
        if len(w) < 2: continue
        name = w[0]; exp = w[1].replace("expected=", ""); m = re.search(r"caught_by=(\S+)", line)
        seen[name] = (exp, m.group(1) if m else ("INTERNAL" if "INTERNAL" in line else "?"))
    for name, (exp, got) in seen.items():
        dn += 1; dc += got not in ("NONE", "?", "INTERNAL")
        out.append("| %s | %s | %s | %s |" % (name, exp, got if got != "NONE" else "**none**", NOTES.get(name, "")))
out += ["", "%d of %d caught." % (dc, dn), ""]
open(os.path.join(VERIF, "seeded", "RESULTS.md"), "w").write("\n".join(out))
print("independent: %d/%d, design: %d/%d" % (c, n, dc, dn))
