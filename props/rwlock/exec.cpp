// Executor for the rwp::Resource properties under the controlled scheduler:
//   C01 a writer never shares the lock        (holder counters + tulz assert)
//   C02 no lost wake-up, idle afterwards      (deadlock = definite outcome; idle probe)
//   C03 FIFO fairness                         (park-before-call  =>  return order)
//   C12 readers share                         (no park without a writer; rendezvous must not deadlock)
// A case = header {shape, nthreads} + ops {kind r/w, thread, flags, extra} + schedule bytes.
#include "../../engine/common/exec.h"
#include "../../engine/vsched/vsched.h"

#include <tulz/threading/rwp/ReadLock.h>
#include <tulz/threading/rwp/Resource.h>
#include <tulz/threading/rwp/WriteLock.h>

#include <memory>
#include <set>
#include <thread>
#include <unistd.h>

using namespace tulz::rwp;

namespace vf {
const char *const exec_props = "C01 C02 C03 C12";

namespace {

enum Shape { FREE = 0, BATCH = 1, READER_HEAVY = 2, ORDERING = 3, WRITER_FREE = 4, RENDEZVOUS = 5, TWO_RESOURCES = 6, LONG_BUSY = 7 };

struct Req { int tid; bool w; long call = -1, park = -1, ret = -1, unl = -1; bool wseen = false; int nparks = 0; };

std::string g_prop;
std::vector<Req> reqs;
long clk = 0;
int cur_req[64];
int readers_in = 0, writers_in = 0, max_readers_in = 0;
int rdepth[64];                // read-lock nesting depth per thread (nested reads exist only in writer-free programs)
int writes_outstanding = 0;
int parked_now = 0, max_parked = 0, total_parks = 0;
bool switch_in_cs = false, probe_phase = false;
std::set<int> woken_pending;
bool nt_c02 = false;
const void *res_lo = nullptr, *res_hi = nullptr;
int turn = 0;                 // ORDERING / RENDEZVOUS orchestration
bool long_shape = false;      // LONG_BUSY: tens of thousands of requests; the quadratic pair analysis is skipped
int barrier_in = 0, barrier_k = 0; bool barrier_done = false;

const char *stname(vsched::St s) {
    switch (s) { case vsched::RUNNABLE: return "runnable"; case vsched::B_MUTEX: return "blocked-on-mutex"; case vsched::B_CV: return "parked-on-condvar";
                 case vsched::B_CVT: return "parked-timed"; case vsched::B_JOIN: return "in-join"; case vsched::B_PRED: return "waiting-for-harness-condition"; default: return "finished"; }
}

std::string dump_state() {
    std::string s;
    for (int t = 0; t < vsched::nthreads(); ++t) { char b[96]; snprintf(b, sizeof b, " t%d:%s", t, stname(vsched::state(t))); s += b; }
    s += " | pending:";
    for (auto &r : reqs) if (r.ret < 0) { char b[64]; snprintf(b, sizeof b, " t%d:%c(call@%ld%s)", r.tid, r.w ? 'W' : 'R', r.call, r.park >= 0 ? ",parked" : ""); s += b; }
    return s;
}

// a violation of some property: reported only by the check that owns it; for the others the case just ends
[[noreturn]] void pviolation(const char *owners, const char *cls, const char *fmt, ...) {
    char m[1500]; va_list ap; va_start(ap, fmt); vsnprintf(m, sizeof m, fmt, ap); va_end(ap);
    if (strstr(owners, g_prop.c_str())) violation(cls, "%s", m);
    note("foreign violation %s (%s): %s", cls, owners, m);
    label((std::string("foreign_") + cls).c_str());
    finish_ok();
    _exit(0);
}

void on_deadlock() {
    std::string st = dump_state();
    pviolation(barrier_k ? "C02 C12" : "C02", "DEADLOCK", "no thread can run:%s", st.c_str());
}
void on_park(int tid, const void *cv) {
    if (cv < res_lo || cv >= res_hi) return;
    ++total_parks; ++parked_now; if (parked_now > max_parked) max_parked = parked_now;
    note("t%d PARK", tid);
    if (probe_phase) pviolation("C02", "IDLE_PARK", "after all locks were released the idle probe had to wait inside lock*()");
    int r = cur_req[tid];
    if (r < 0) return;
    Req &q = reqs[r];
    ++q.nparks;
    if (q.park < 0) {
        q.park = clk++;
        if (!q.w && !q.wseen)
            pviolation("C12", "READER_PARKED", "read request of t%d (call@%ld) had to wait although no write request was active or waiting during it", tid, q.call);
        if (turn > 0 && turn == tid) ++turn;      // ORDERING shape: release the next caller once this one is parked
    }
}
void on_wake(int tid, const void *cv) {
    if (cv < res_lo || cv >= res_hi) return;
    --parked_now; woken_pending.insert(tid);
}
void on_switch(int, int to) {
    if (readers_in + writers_in > 0) switch_in_cs = true;
    if (!woken_pending.empty() && !woken_pending.count(to)) nt_c02 = true;
}
void on_steps() { internal_error("scheduler step limit reached (livelock in the harness or in tulz?)"); }

struct Prog { std::vector<std::vector<Op>> per; };

void check_entry(bool w, int tid, const char *when) {
    if (w) { if (readers_in || writers_in) pviolation("C01", "OVERLAP", "t%d %s the write lock while %d reader(s) and %d writer(s) hold the lock", tid, when, readers_in, writers_in); }
    else { if (writers_in) pviolation("C01", "OVERLAP", "t%d %s a read lock while %d writer(s) hold the lock", tid, when, writers_in); }
}

void body(bool w, int tid, int yields, bool rendezvous) {
    check_entry(w, tid, "acquired");
    if (w) ++writers_in;
    else {
        ++readers_in; ++rdepth[tid];
        int distinct = 0; for (int d : rdepth) distinct += d > 0;
        if (distinct > max_readers_in) max_readers_in = distinct;
    }
    if (rendezvous) {
        ++barrier_in;
        vsched::wait_until([] { return barrier_in >= barrier_k; });
        barrier_done = true;
    }
    for (int i = 0; i < yields; ++i) {
        vsched::yield();
        if (w) { if (readers_in || writers_in != 1) pviolation("C01", "OVERLAP", "t%d holds the write lock together with %d reader(s) / %d writer(s)", tid, readers_in, writers_in - 1); }
        else { if (writers_in) pviolation("C01", "OVERLAP", "t%d holds a read lock together with %d writer(s)", tid, writers_in); }
    }
    if (w) --writers_in; else { --readers_in; --rdepth[tid]; }
}

void do_op(Resource &res, const Op &o, int tid, bool rendezvous = false, std::function<void()> inside = nullptr) {
    bool w = o.k == 1;
    bool guard = o.b & 1; int yields = (o.b >> 1) & 3; if (yields == 3) yields = 2;
    int r = (int)reqs.size();
    reqs.push_back(Req{tid, w});
    reqs[r].call = clk++;
    cur_req[tid] = r;
    if (w) { ++writes_outstanding; for (auto &q : reqs) if (q.ret < 0) q.wseen = true; }
    else reqs[r].wseen = writes_outstanding > 0;
    note("t%d CALL %c%s", tid, w ? 'W' : 'R', guard ? " (guard)" : "");
    auto after_lock = [&] {
        reqs[r].ret = clk++; cur_req[tid] = -1; woken_pending.erase(tid);
        if (turn > 0 && turn == tid) ++turn;       // did not park: release the next caller anyway
        note("t%d RET  %c (readers=%d writers=%d)", tid, w ? 'W' : 'R', readers_in, writers_in);
        body(w, tid, yields, rendezvous);
        if (inside) inside();
        reqs[r].unl = clk++;
        note("t%d UNL  %c", tid, w ? 'W' : 'R');
    };
    if (guard) {
        if (w) { WriteLock l(res); after_lock(); } else { ReadLock l(res); after_lock(); }
    } else {
        if (w) res.lockWrite(); else res.lockRead();
        after_lock();
        if (w) res.unlockWrite(); else res.unlockRead();
    }
    if (w) --writes_outstanding;
    count_ops();
}

} // namespace

void exec_case(const Case &c) {
    g_prop = c.prop;
    int shape = hget(c, 0, 0);
    int nth = hget(c, 1, 3); if (nth < 1) nth = 1; if (nth > 14) nth = 14;
    for (int &x : cur_req) x = -1;

    Prog p; p.per.resize((size_t)nth);
    for (const Op &o : c.ops) {
        if (o.k != 0 && o.k != 1) { count_skipped(); continue; }
        Op q = o;
        if (shape == WRITER_FREE) q.k = 0;
        p.per[(size_t)((unsigned)o.a % (unsigned)nth)].push_back(q);
    }
    static const char *shapes[] = {"shape_free", "shape_batch", "shape_reader_heavy", "shape_ordering", "shape_writer_free", "shape_rendezvous", "shape_two_resources", "shape_long_busy_period"};
    label(shapes[shape >= 0 && shape <= 7 ? shape : 0]);

    vsched::on_deadlock = on_deadlock; vsched::on_park = on_park; vsched::on_wake = on_wake; vsched::on_switch = on_switch; vsched::on_step_limit = on_steps;
    vsched::set_mode_pct(hget(c, 2, 0) == 1); if (hget(c, 2, 0) == 1) label("pct_schedule");
    vsched::begin(c.sched.data(), c.sched.size());
    {
        auto resp = std::make_unique<Resource>();
        Resource &res = *resp;
        Resource other;
        res_lo = resp.get(); res_hi = (const char *)resp.get() + sizeof(Resource);
        std::vector<std::thread> th;

        if (shape == ORDERING && nth >= 3) {
            // thread 1 is the holder; threads 2..nth issue their first request one by one, each only after the
            // previous requester is parked (or has returned); then the holder releases.  Thread ids == vsched ids.
            turn = 0;
            for (int i = 0; i < nth; ++i) {
                th.emplace_back([&, i] {
                    int tid = vsched::self();
                    auto &ops = p.per[(size_t)i];
                    size_t k = 0;
                    if (i == 0) {
                        Op first = ops.empty() ? Op{1, 0, 2, 0} : ops[k++];
                        do_op(res, first, tid, false, [&] {
                            turn = 2;                                        // vsched id of the first requester
                            vsched::wait_until([&] { return turn > nth; });  // everybody has issued (parked or returned)
                        });
                    } else {
                        vsched::wait_until([&] { return turn == tid; });
                        Op first = ops.empty() ? Op{i % 2, 0, 0, 0} : ops[k++];
                        do_op(res, first, tid);
                    }
                    for (; k < ops.size(); ++k) do_op(res, ops[k], tid);
                });
            }
        } else if (shape == RENDEZVOUS && nth >= 3) {
            // thread 1: writer holds until all nth-1 readers are parked behind it (no further write call is issued
            // meanwhile), then unlocks; the readers rendezvous INSIDE their read sections.
            barrier_k = nth - 1;
            for (int i = 0; i < nth; ++i) {
                th.emplace_back([&, i] {
                    int tid = vsched::self();
                    auto &ops = p.per[(size_t)i];
                    if (i == 0) {
                        Op wop{1, 0, (ops.empty() ? 0 : ops[0].b) & 7, 0};
                        do_op(res, wop, tid, false, [&] {
                            turn = -1;   // readers may go
                            vsched::wait_until([&] { if (vsched::nthreads() <= nth) return false; int n = 0; for (int t = 2; t <= nth; ++t) n += vsched::state(t) == vsched::B_CV; return n == nth - 1; });
                        });
                        for (size_t k = 1; k < ops.size(); ++k) { vsched::wait_until([] { return barrier_done; }); do_op(res, ops[k], tid); }
                    } else {
                        vsched::wait_until([&] { return turn == -1; });
                        Op rop{0, 0, (ops.empty() ? 0 : ops[0].b) & 7, 0};
                        do_op(res, rop, tid, true);
                        for (size_t k = 1; k < ops.size(); ++k) do_op(res, ops[k], tid);
                    }
                });
            }
        } else if (shape == LONG_BUSY) {
            // one long busy period on a long-lived Resource: every holder keeps the lock until all other unfinished threads are
            // parked behind it, so the queue is never empty at an unlock and the ticket counters are never reset.
            long per = hget(c, 3, 20); if (per < 1) per = 1; if (per > 40000) per = 40000;
            vsched::step_limit = 80000000;
            long_shape = true;
            static std::vector<char> finished; finished.assign((size_t)nth + 2, 0);
            for (int i = 0; i < nth; ++i)
                th.emplace_back([&, i, per] {
                    int tid = vsched::self();
                    auto &ops = p.per[(size_t)i];
                    for (long k = 0; k < per; ++k) {
                        Op o = ops.empty() ? Op{(int)((k + i) % 3 == 0), 0, 0, 0} : ops[(size_t)k % ops.size()];
                        o.b &= 1;   // no yields: the holder blocks on the harness condition instead
                        do_op(res, o, tid, false, [&] {
                            vsched::wait_until([&] {
                                for (int t = 1; t <= nth; ++t) { if (t == tid || finished[(size_t)t]) continue; if (t >= vsched::nthreads()) return false; vsched::St st = vsched::state(t); if (st != vsched::B_CV && st != vsched::B_PRED) return false; }   // parked behind me, or a fellow reader waiting like me
                                return true;
                            });
                        });
                    }
                    finished[(size_t)tid] = 1;
                });
        } else if (shape == TWO_RESOURCES) {
            // a second, unrelated Resource that is only ever read-locked (so it can never block anybody): some requests on
            // the Resource under test are issued while the thread holds a read lock on the other one.  Locks of different
            // Resources must not influence each other.
            for (int i = 0; i < nth; ++i)
                th.emplace_back([&, i] {
                    int tid = vsched::self();
                    for (const Op &o : p.per[(size_t)i]) {
                        if (o.b & 8) { label("holds_other_resource"); other.lockRead(); do_op(res, o, tid); other.unlockRead(); }
                        else do_op(res, o, tid);
                    }
                });
        } else {
            for (int i = 0; i < nth; ++i)
                th.emplace_back([&, i] {
                    int tid = vsched::self();
                    for (const Op &o : p.per[(size_t)i]) {
                        if (shape == WRITER_FREE && (o.b & 8)) {   // nested read on the same thread: legal when no writer exists
                            label("nested_read");
                            do_op(res, o, tid, false, [&] { do_op(res, Op{0, 0, o.c & 7, 0}, tid); });
                        } else do_op(res, o, tid);
                    }
                });
        }
        for (auto &t : th) t.join();

        // C02 (b): the Resource is idle again and grants without waiting
        probe_phase = true;
        res.lockWrite(); check_entry(true, 0, "(idle probe) acquired"); res.unlockWrite();
        res.lockRead(); res.lockRead(); res.unlockRead(); res.unlockRead();
        probe_phase = false;
    }
    vsched::end();
    if (vsched::spurious_wakeups()) label("spurious_wakeup");
    { std::string w = "W"; for (uint8_t x : vsched::widths()) { if (w.size() > 4000) break; w += (char)('0' + (x > 9 ? 9 : x)); } aux(w); }

    // C03: X was parked inside lock*() before Y was called, not both reads  =>  X returned first
    long pairs = 0, wpairs = 0;
    if (long_shape) label_n("requests_in_one_busy_period", (long)reqs.size());
    if (!long_shape || reqs.size() <= 600) for (auto &x : reqs) if (x.park >= 0)
        for (auto &y : reqs) if (&x != &y && y.call > x.park && (x.w || y.w)) {
            ++pairs; ++wpairs;
            if (!(x.ret >= 0 && y.ret >= 0 && x.ret < y.ret))
                pviolation("C03", "OVERTAKEN", "request %c of t%d was parked inside lock*() at @%ld, request %c of t%d was issued later at @%ld but was granted first (returns @%ld vs @%ld)",
                           x.w ? 'W' : 'R', x.tid, x.park, y.w ? 'W' : 'R', y.tid, y.call, x.ret, y.ret);
        }
    label_n("fifo_pairs", pairs);
    if (total_parks) label("some_park");
    if (max_parked >= 2) label("two_parked_at_once");
    if (max_parked >= 8) label("eight_or_more_parked_at_once");
    if (switch_in_cs) label("switch_inside_cs");
    if (max_readers_in >= 2) label("readers_share");
    if (barrier_done) label("rendezvous_completed");
    if (nt_c02) label("admitted_waiter_slow_to_wake");
    label_n("switches", (long)vsched::switches());
    label_n("choices_used", (long)vsched::choices_used());
    if (vsched::choices_used() >= c.sched.size() && !c.sched.empty()) label("schedule_fully_consumed");

    if (g_prop == "C01") { if (total_parks && switch_in_cs) nontrivial(); }
    else if (g_prop == "C02") { if (nt_c02) nontrivial(); }
    else if (g_prop == "C03") { if (wpairs >= 1 && max_parked >= 2) nontrivial(); }
    else if (g_prop == "C12") { if (max_readers_in >= 2 && (shape != RENDEZVOUS || barrier_done)) nontrivial(); }
}

} // namespace vf
