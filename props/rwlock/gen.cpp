// Generators for the rwp::Resource properties: thread programs + schedules.
#include "../../engine/pbt/gen.h"
using namespace vf;

namespace {
enum Shape { FREE = 0, BATCH = 1, READER_HEAVY = 2, ORDERING = 3, WRITER_FREE = 4, RENDEZVOUS = 5, TWO_RESOURCES = 6, LONG_BUSY = 7 };

// op: k = 0 read | 1 write, a = thread, b = bit0 guard, bits1-2 yields inside, bit3 nested read (writer-free only), c = flags of the nested op
rc::Gen<std::vector<Op>> ops(int wr, int ww, int maxOps) {
    return genOps({{0, wr, 7, 15, 7}, {1, ww, 7, 15, 7}}, maxOps);
}

// BATCH: a writer that holds across yields, >= 2 readers, >= 1 further writer, then a free mix
rc::Gen<std::vector<Op>> batchOps(int maxOps) {
    return rc::gen::map(rc::gen::tuple(rng(2, 4), rng(0, 15), ops(3, 2, maxOps)), [](const std::tuple<int, int, std::vector<Op>> &t) {
        int readers = std::get<0>(t); int fl = std::get<1>(t);
        std::vector<Op> v;
        v.push_back(Op{1, 0, 4 | (fl & 1), 0});                                  // t0: W, holds across 2 yields
        for (int i = 0; i < readers; ++i) v.push_back(Op{0, 1 + i, (fl >> 1) & 7, 0});
        v.push_back(Op{1, 1 + readers, (fl >> 2) & 3, 0});
        for (const Op &o : std::get<2>(t)) v.push_back(o);
        return v;
    });
}

rc::Gen<Case> shapeCase(const std::string &prop, int shape, int thLo, int thHi, rc::Gen<std::vector<Op>> o, int schedLen) {
    // h[2] = 1: PCT-style priority schedule (the bytes seed priorities and change points), else explicit choice vector
    return rc::gen::weightedOneOf<Case>({{4, genCase(prop, genHeader({{shape, shape}, {thLo, thHi}, {0, 0}}), o, genSched(schedLen))},
                                         {1, genCase(prop, genHeader({{shape, shape}, {thLo, thHi}, {1, 1}}), o, genSchedPCT())}});
}

// LONG_BUSY: 3-5 threads, each repeating its short op pattern `per` times inside one never-ending busy period (h[3] = per);
// quick: 10-80 rounds; thorough: mostly 50-600, occasionally 22 000+ (more than 2^16 tickets in one busy period)
rc::Gen<Case> longCase(const std::string &prop, Tier t) {
    // the 22 000-round variant (> 2^16 tickets in one busy period, ~10 CPU-seconds per case) belongs to C02 only
    auto per = t == THOROUGH ? (prop == "C02" ? rc::gen::weightedOneOf<int>({{60, rng(50, 600)}, {1, rng(22000, 24000)}}) : rng(50, 600)) : rng(10, 80);
    auto h = rc::gen::map(rc::gen::tuple(rng(3, 5), per), [](const std::tuple<int, int> &x) { return std::vector<int>{LONG_BUSY, std::get<0>(x), 0, std::get<1>(x)}; });
    return genCase(prop, h, ops(2, 2, 8), rc::gen::just(std::vector<uint8_t>{}));
}
// many threads: a writer holds until 8-12 readers are parked behind it in ONE batch, then they rendezvous inside
rc::Gen<Case> bigBatch(const std::string &prop) {
    return genCase(prop, genHeader({{RENDEZVOUS, RENDEZVOUS}, {9, 13}, {0, 0}}), ops(3, 1, 6), genSched(60));
}

// deep queue: the ORDERING orchestration with 10-14 threads - a holder and 9-13 requests parked one after the other, writer-heavy so
// that (almost) every request is a queue entry of its own: 8+ entries wait at once
rc::Gen<Case> deepQueue(const std::string &prop, int n, int sl) {
    return shapeCase(prop, ORDERING, 10, 14, ops(2, 3, n), sl);
}

Register r01("C01", [](Tier t) {
    int T = t == THOROUGH ? 8 : 5, n = t == THOROUGH ? 24 : 12, sl = t == THOROUGH ? 200 : 100;
    return rc::gen::weightedOneOf<Case>({{4, shapeCase("C01", FREE, 2, T, ops(3, 2, n), sl)},
                                         {4, shapeCase("C01", BATCH, 4, T, batchOps(n), sl)},
                                         {2, shapeCase("C01", READER_HEAVY, 3, T, ops(5, 1, n), sl)},
                                         {1, shapeCase("C01", TWO_RESOURCES, 3, T, ops(3, 2, n), sl)}, {1, longCase("C01", t)}, {1, deepQueue("C01", n, sl)}});
});
Register r02("C02", [](Tier t) {
    int T = t == THOROUGH ? 8 : 5, n = t == THOROUGH ? 24 : 12, sl = t == THOROUGH ? 200 : 100;
    return rc::gen::weightedOneOf<Case>({{4, shapeCase("C02", FREE, 2, T, ops(3, 2, n), sl)},
                                         {4, shapeCase("C02", BATCH, 4, T, batchOps(n), sl)},
                                         {2, shapeCase("C02", READER_HEAVY, 3, T, ops(5, 1, n), sl)}, {1, longCase("C02", t)}, {1, bigBatch("C02")}, {1, deepQueue("C02", n, sl)}});
});
Register r03("C03", [](Tier t) {
    int T = t == THOROUGH ? 8 : 6, n = t == THOROUGH ? 24 : 12, sl = t == THOROUGH ? 200 : 100;
    return rc::gen::weightedOneOf<Case>({{3, shapeCase("C03", FREE, 3, T, ops(3, 3, n), sl)},
                                         {2, shapeCase("C03", BATCH, 4, T, batchOps(n), sl)},
                                         {5, shapeCase("C03", ORDERING, 3, T, ops(3, 3, n), sl)},
                                         {2, shapeCase("C03", TWO_RESOURCES, 3, T, ops(3, 2, n), sl)}, {1, deepQueue("C03", n, sl)}});
});
Register r12("C12", [](Tier t) {
    int T = t == THOROUGH ? 8 : 6, n = t == THOROUGH ? 24 : 12, sl = t == THOROUGH ? 200 : 100;
    return rc::gen::weightedOneOf<Case>({{4, shapeCase("C12", WRITER_FREE, 2, T, ops(1, 0, n), sl)},
                                         {3, shapeCase("C12", FREE, 2, T, ops(4, 1, n), sl)},
                                         {3, shapeCase("C12", RENDEZVOUS, 3, T, ops(3, 1, n), sl)},
                                         {1, shapeCase("C12", TWO_RESOURCES, 3, T, ops(4, 1, n), sl)}, {1, longCase("C12", t)}, {1, bigBatch("C12")}});
});

// ---- small-scope program spaces (systematic enumeration of schedules, thorough tier)
// op alphabet: {read, write} x {0, 1 yield inside}; raw calls (the guards are the same code path)
Case rwprog(const std::string &prop, int shape, std::vector<std::vector<int>> per) {
    Case c; c.prop = prop; c.h = {shape, (int)per.size()};
    // ops are listed round-robin so that thread t gets exactly per[t] in order (the executor groups ops by `a % nthreads`)
    size_t maxlen = 0; for (auto &v : per) maxlen = std::max(maxlen, v.size());
    for (size_t i = 0; i < maxlen; ++i) for (size_t t = 0; t < per.size(); ++t) if (i < per[t].size()) { int code = per[t][i]; c.ops.push_back(Op{code & 1, (int)t, (code & 2) ? 2 : 0, 0}); }
    return c;
}
EnumSpace rwspace(const std::string &prop) {
    EnumSpace e;
    // A: 3 threads x 1 op (4^3 = 64);  B: 2 threads x 2 ops (4^4 = 256);  C: 4 threads x 1 op without yields (2^4 = 16);
    // D: batch prefix  W(hold) | R | R | W  + one more op on thread 1 or 2 (4 x 2 = 8)
    e.count = 64 + 256 + 16 + 8;
    e.description = "Resource programs: 3 threads x 1 op, 2 threads x 2 ops (op in {read,write} x {0,1 yield inside}), 4 threads x 1 op, batch shape with one extra op";
    e.at = [prop](size_t i) {
        if (i < 64) return rwprog(prop, FREE, {{(int)(i & 3)}, {(int)((i >> 2) & 3)}, {(int)((i >> 4) & 3)}});
        i -= 64;
        if (i < 256) return rwprog(prop, FREE, {{(int)(i & 3), (int)((i >> 2) & 3)}, {(int)((i >> 4) & 3), (int)((i >> 6) & 3)}});
        i -= 256;
        if (i < 16) return rwprog(prop, FREE, {{(int)(i & 1)}, {(int)((i >> 1) & 1)}, {(int)((i >> 2) & 1)}, {(int)((i >> 3) & 1)}});
        i -= 16;
        std::vector<std::vector<int>> per{{3}, {0}, {0}, {1}};
        per[1 + (i & 1)].push_back((int)(i >> 1));
        return rwprog(prop, FREE, per);
    };
    return e;
}
RegisterEnum e01("C01", rwspace("C01"));
RegisterEnum e02("C02", rwspace("C02"));
RegisterEnum e03("C03", rwspace("C03"));
RegisterEnum e12("C12", rwspace("C12"));
} // namespace
