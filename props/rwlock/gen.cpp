// Generators for the rwp::Resource properties: thread programs + schedules.
#include "../../engine/pbt/gen.h"
using namespace vf;

namespace {
enum Shape { FREE = 0, BATCH = 1, READER_HEAVY = 2, ORDERING = 3, WRITER_FREE = 4, RENDEZVOUS = 5, TWO_RESOURCES = 6 };

// op: k = 0 read | 1 write, a = thread, b = bit0 guard, bits1-2 yields inside, bit3 nested read (writer-free only), c = flags of the nested op
rc::Gen<std::vector<Op>> ops(int wr, int ww, int maxOps) {
    return genOps({{0, wr, 7, 15, 7}, {1, ww, 7, 15, 7}}, maxOps);
}

// BATCH: a writer that holds across yields, >= 2 readers, >= 1 further writer, then a free mix
rc::Gen<std::vector<Op>> batchOps(int maxOps) {
    return rc::gen::map(rc::gen::tuple(rng(2, 4), rng(0, 15), ops(3, 2, maxOps)), [](const std::tuple<int, int, std::vector<Op>> &t) {
        int readers = std::get<0>(t); int fl = std::get<1>(t);
        std::vector<Op> v;
        v.push_back(Op{1, 0, 4 | (fl & 1), 0});                                  // t0: W, holds across 2 yields
        for (int i = 0; i < readers; ++i) v.push_back(Op{0, 1 + i, (fl >> 1) & 7, 0});
        v.push_back(Op{1, 1 + readers, (fl >> 2) & 3, 0});
        for (const Op &o : std::get<2>(t)) v.push_back(o);
        return v;
    });
}

rc::Gen<Case> shapeCase(const std::string &prop, int shape, int thLo, int thHi, rc::Gen<std::vector<Op>> o, int schedLen) {
    return genCase(prop, genHeader({{shape, shape}, {thLo, thHi}}), std::move(o), genSched(schedLen));
}

Register r01("C01", [](Tier t) {
    int T = t == THOROUGH ? 8 : 5, n = t == THOROUGH ? 24 : 12, sl = t == THOROUGH ? 200 : 100;
    return rc::gen::weightedOneOf<Case>({{4, shapeCase("C01", FREE, 2, T, ops(3, 2, n), sl)},
                                         {4, shapeCase("C01", BATCH, 4, T, batchOps(n), sl)},
                                         {2, shapeCase("C01", READER_HEAVY, 3, T, ops(5, 1, n), sl)},
                                         {1, shapeCase("C01", TWO_RESOURCES, 3, T, ops(3, 2, n), sl)}});
});
Register r02("C02", [](Tier t) {
    int T = t == THOROUGH ? 8 : 5, n = t == THOROUGH ? 24 : 12, sl = t == THOROUGH ? 200 : 100;
    return rc::gen::weightedOneOf<Case>({{4, shapeCase("C02", FREE, 2, T, ops(3, 2, n), sl)},
                                         {4, shapeCase("C02", BATCH, 4, T, batchOps(n), sl)},
                                         {2, shapeCase("C02", READER_HEAVY, 3, T, ops(5, 1, n), sl)}});
});
Register r03("C03", [](Tier t) {
    int T = t == THOROUGH ? 8 : 6, n = t == THOROUGH ? 24 : 12, sl = t == THOROUGH ? 200 : 100;
    return rc::gen::weightedOneOf<Case>({{3, shapeCase("C03", FREE, 3, T, ops(3, 3, n), sl)},
                                         {2, shapeCase("C03", BATCH, 4, T, batchOps(n), sl)},
                                         {5, shapeCase("C03", ORDERING, 3, T, ops(3, 3, n), sl)},
                                         {2, shapeCase("C03", TWO_RESOURCES, 3, T, ops(3, 2, n), sl)}});
});
Register r12("C12", [](Tier t) {
    int T = t == THOROUGH ? 8 : 6, n = t == THOROUGH ? 24 : 12, sl = t == THOROUGH ? 200 : 100;
    return rc::gen::weightedOneOf<Case>({{4, shapeCase("C12", WRITER_FREE, 2, T, ops(1, 0, n), sl)},
                                         {3, shapeCase("C12", FREE, 2, T, ops(4, 1, n), sl)},
                                         {3, shapeCase("C12", RENDEZVOUS, 3, T, ops(3, 1, n), sl)},
                                         {1, shapeCase("C12", TWO_RESOURCES, 3, T, ops(4, 1, n), sl)}});
});
} // namespace
