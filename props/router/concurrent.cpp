#include "runner.h"
namespace vf { void run_router_concurrent(const Case &c) { router::dispatch<tulz::ConcurrentSubjectRouter>(c); } }
