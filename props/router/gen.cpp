// Generators for C06 (delivery) and C13 (shrink / exists / depth): histories over one router.
#include "../../engine/pbt/gen.h"
using namespace vf;
namespace {
enum K { SUBSCRIBE = 0, SUBSCRIBE_SELFVIEW, UNSUBSCRIBE, SELF_INVALIDATE_NEXT, NOTIFY, SHRINK, SHRINK_ALL, EXISTS, DEPTH, NOTIFY_CONCRETE, SHRINK_DERIVED, SUBSCRIBE_MANY, UNSUBSCRIBE_SIBLINGS };
// operands: a -> depth, b -> packed level choices, c -> per-level "regex" bits
Register r06("C06", [](Tier t) {
    auto ops = genOps({{SUBSCRIBE, 16, 15, 9999, 15}, {SUBSCRIBE_SELFVIEW, 3, 15, 9999, 15}, {NOTIFY, 5, 15, 9999, 15}, {NOTIFY_CONCRETE, 14, 31, 9999, 15}, {UNSUBSCRIBE, 4, 31, 0, 0},
                       {SELF_INVALIDATE_NEXT, 2, 31, 0, 0}, {SHRINK, 1, 15, 9999, 15}, {SHRINK_DERIVED, 2, 31, 9999, 63}, {SHRINK_ALL, 1, 7, 0, 0}, {EXISTS, 1, 15, 9999, 15},
                       {SUBSCRIBE_MANY, 2, 31, 63, 7}, {UNSUBSCRIBE_SIBLINGS, 1, 31, 0, 1}}, t == THOROUGH ? 100 : 50);
    // h[0]: argument signature (6 kinds), h[1]: SubjectRouter | ConcurrentSubjectRouter, h[2]: size of the name universe (3..6)
    // h[2]: name universe 3..6 names (0..3), or a WIDE universe of 40 / 64 names (4, 5)
    return genCase("C06", genHeader({{0, 5}, {0, 1}, {0, 5}}), ops);
});
Register r13("C13", [](Tier t) {
    auto ops = genOps({{SUBSCRIBE, 14, 15, 9999, 15}, {SUBSCRIBE_SELFVIEW, 2, 15, 9999, 15}, {UNSUBSCRIBE, 9, 31, 0, 0}, {SHRINK_DERIVED, 8, 31, 9999, 63}, {SHRINK, 3, 15, 9999, 15}, {SHRINK_ALL, 3, 7, 0, 0},
                       {EXISTS, 6, 15, 9999, 15}, {NOTIFY, 3, 15, 9999, 15}, {SUBSCRIBE_MANY, 2, 31, 63, 7}, {UNSUBSCRIBE_SIBLINGS, 3, 31, 0, 1}, {SELF_INVALIDATE_NEXT, 2, 31, 0, 0}, {NOTIFY_CONCRETE, 3, 31, 9999, 15}, {DEPTH, 1, 0, 0, 0}},
                      t == THOROUGH ? 70 : 36);
    // signatures () and const std::string& only (h[0] in {0, 2})
    return genCase("C13", rc::gen::map(genHeader({{0, 1}, {0, 1}, {0, 5}}), [](std::vector<int> h) { h[0] *= 2; return h; }), ops);
});
} // namespace
