#include "runner.h"
namespace vf { void run_router_plain(const Case &c) { router::dispatch<tulz::SubjectRouter>(c); } }
