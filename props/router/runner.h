// Shared harness for C06 / C13 (SubjectRouter and ConcurrentSubjectRouter driven from one thread).
// Oracles: own level-by-level matcher on a fixed table of (regex text, obviously-right predicate) pairs; model of
// subscriptions per concrete key; stored-key set observed through exists() on every concrete key of the finite universe.
#pragma once
#include "../../engine/common/exec.h"

#include <tulz/observer/USubscription.h>
#include <tulz/observer/routing/ConcurrentSubjectRouter.h>
#include <tulz/observer/routing/RoutingKeyBuilder.h>
#include <optional>
#include <tulz/observer/routing/SubjectRouter.h>

#include <algorithm>
#include <map>
#include <memory>
#include <set>
#include <string>
#include <vector>

namespace vf { namespace router {
using namespace tulz;

// ---------------------------------------------------------------- key universe and patterns
// the first six names are the adversarial ones; n06..n63 exist for WIDE trees (more than 32 / 48 children under one node)
inline const std::vector<std::string> &names() {
    static const std::vector<std::string> n = [] {
        std::vector<std::string> v{"a", "b", "ab", "a.b", ".*", ""};
        for (int i = 6; i < 64; ++i) { char b[8]; snprintf(b, sizeof b, "n%02d", i); v.push_back(b); }
        return v;
    }();
    return n;
}
constexpr int MAXDEPTH = 3;

struct Rx { const char *text; bool (*match)(const std::string &); };
inline const std::vector<Rx> &regexes() {
    static const std::vector<Rx> r{
        {".*", [](const std::string &) { return true; }},
        {".+", [](const std::string &s) { return !s.empty(); }},
        {"a|b", [](const std::string &s) { return s == "a" || s == "b"; }},
        {"[ab]+", [](const std::string &s) { return !s.empty() && s.find_first_not_of("ab") == std::string::npos; }},
        {"a.*", [](const std::string &s) { return !s.empty() && s[0] == 'a'; }},
        {"a\\.b", [](const std::string &s) { return s == "a.b"; }},
        {"ab?", [](const std::string &s) { return s == "a" || s == "ab"; }},
        {"b", [](const std::string &s) { return s == "b"; }},
        {"", [](const std::string &s) { return s.empty(); }},
        {"\\.\\*", [](const std::string &s) { return s == ".*"; }},
        {"n.*", [](const std::string &s) { return !s.empty() && s[0] == 'n'; }},
        {"n[0-9]+", [](const std::string &s) { return s.size() >= 2 && s[0] == 'n' && s.find_first_not_of("0123456789", 1) == std::string::npos; }},
    };
    return r;
}

using Key = std::vector<int>;                       // name indices, root excluded
struct Level { bool regex; int idx; };              // string level (name idx) or regex level (regex idx)
using Pattern = std::vector<Level>;

inline bool level_matches(const Level &l, const std::string &name) { return l.regex ? regexes()[(size_t)l.idx].match(name) : names()[(size_t)l.idx] == name; }
inline bool prefix_matches(const Pattern &p, const Key &k, size_t n) {   // first n levels of k against first n levels of p
    if (p.size() < n || k.size() < n) return false;
    for (size_t i = 0; i < n; ++i) if (!level_matches(p[i], names()[(size_t)k[i]])) return false;
    return true;
}
inline bool full_match(const Pattern &p, const Key &k) { return p.size() == k.size() && prefix_matches(p, k, k.size()); }

inline std::string show(const Key &k) { std::string s = "/"; for (size_t i = 0; i < k.size(); ++i) { s += "'" + names()[(size_t)k[i]] + "'"; if (i + 1 < k.size()) s += "/"; } return s; }
inline std::string show(const Pattern &p) {
    std::string s = "/";
    for (size_t i = 0; i < p.size(); ++i) { s += p[i].regex ? std::string("re(") + regexes()[(size_t)p[i].idx].text + ")" : "'" + names()[(size_t)p[i].idx] + "'"; if (i + 1 < p.size()) s += "/"; }
    return s;
}
inline RoutingKey build(const Key &k) { RoutingKeyBuilder b; for (int i : k) b.level(names()[(size_t)i]); return b.build(); }
inline RoutingKey build(const Pattern &p) {
    RoutingKeyBuilder b;
    for (const Level &l : p) {
        if (!l.regex) b.level(names()[(size_t)l.idx]);
        else b.level(std::regex(regexes()[(size_t)l.idx].text));
    }
    return b.build();
}
inline RoutingKey build_all(size_t depth) { RoutingKeyBuilder b; for (size_t i = 0; i < depth; ++i) b.all(); return b.build(); }

// decode raw operands into a key / pattern (interpretive decoding: always valid)
inline Key decode_key(int a, int b, int nameLimit) {
    unsigned ua = (unsigned)a, ub = (unsigned)b;
    size_t depth = ua % (MAXDEPTH + 1);
    Key k; for (size_t i = 0; i < depth; ++i) { k.push_back((int)(ub % (unsigned)nameLimit)); ub /= 7; }
    return k;
}
inline Pattern decode_pattern(int a, int b, int c, int nameLimit, int maxDepth = MAXDEPTH) {
    unsigned ua = (unsigned)a, ub = (unsigned)b, uc = (unsigned)c;
    size_t depth = ua % (unsigned)(maxDepth + 1);
    Pattern p;
    for (size_t i = 0; i < depth; ++i) {
        bool rx = (uc >> i) & 1;
        if (rx) p.push_back(Level{true, (int)(ub % (unsigned)regexes().size())}); else p.push_back(Level{false, (int)(ub % (unsigned)nameLimit)});
        ub /= 11;
    }
    return p;
}

// ---------------------------------------------------------------- argument signatures
struct Payload {
    int v; bool moved_from = false;
    static int &copies() { static int c = 0; return c; }
    explicit Payload(int x) : v(x) {}
    Payload(const Payload &o) : v(o.v), moved_from(o.moved_from) { ++copies(); }
    Payload(Payload &&o) noexcept : v(o.v), moved_from(o.moved_from) { o.moved_from = true; o.v = -1; }
    Payload &operator=(const Payload &) = default;
};
inline std::string render() { return ""; }
inline std::string render(int v) { return std::to_string(v); }
inline std::string render(const std::string &s) { return "\"" + s + "\""; }
inline std::string render(int v, const std::string &s) { return std::to_string(v) + ",\"" + s + "\""; }
inline std::string render(const Payload &p) { return std::string("Payload{") + std::to_string(p.v) + (p.moved_from ? ",MOVED-FROM" : "") + "}"; }
inline std::string mkstr(int seed) { return (seed % 3 == 0 ? std::string("s") : std::string("a string long enough to live on the heap, number ")) + std::to_string(seed); }

template <class... Args> struct Sig;
template <> struct Sig<> { static constexpr const char *name = "sig_void"; template <class R> static std::pair<size_t, std::string> notify(R &r, const RoutingKey &k, int) { return {r.notify(k), render()}; } };
template <> struct Sig<int> { static constexpr const char *name = "sig_int_by_value"; template <class R> static std::pair<size_t, std::string> notify(R &r, const RoutingKey &k, int s) { int v = s * 1000003 + 17; return {r.template notify<int>(k, int(v)), render(v)}; } };
template <> struct Sig<const std::string &> { static constexpr const char *name = "sig_const_string_ref"; template <class R> static std::pair<size_t, std::string> notify(R &r, const RoutingKey &k, int s) { std::string v = mkstr(s); return {r.template notify<const std::string &>(k, v), render(v)}; } };
template <> struct Sig<std::string> { static constexpr const char *name = "sig_string_by_value"; template <class R> static std::pair<size_t, std::string> notify(R &r, const RoutingKey &k, int s) { std::string v = mkstr(s); std::string expect = render(v); return {r.template notify<std::string>(k, std::move(v)), expect}; } };
template <> struct Sig<int, const std::string &> { static constexpr const char *name = "sig_int_and_const_string_ref"; template <class R> static std::pair<size_t, std::string> notify(R &r, const RoutingKey &k, int s) { std::string v = mkstr(s); return {r.template notify<int, const std::string &>(k, int(s), v), render(s, v)}; } };
template <> struct Sig<Payload> { static constexpr const char *name = "sig_class_by_value"; template <class R> static std::pair<size_t, std::string> notify(R &r, const RoutingKey &k, int s) { return {r.template notify<Payload>(k, Payload(s)), render(Payload(s))}; } };

// ---------------------------------------------------------------- the runner
enum K { SUBSCRIBE = 0, SUBSCRIBE_SELFVIEW, UNSUBSCRIBE, SELF_INVALIDATE_NEXT, NOTIFY, SHRINK, SHRINK_ALL, EXISTS, DEPTH, NOTIFY_CONCRETE, SHRINK_DERIVED, SUBSCRIBE_MANY, UNSUBSCRIBE_SIBLINGS, NK };
inline const char *kname(int k) { static const char *n[] = {"subscribe", "subscribe_selfview", "unsubscribe", "self_invalidate_next", "notify", "shrink", "shrink_all", "exists", "depth", "notify_concrete", "shrink_derived", "subscribe_many_siblings", "unsubscribe_all_siblings"}; return n[k]; }

struct ObsRec { int id; Key key; bool subscribed = true, valid = true, selfview = false, pending_self = false; };
struct Shared { std::vector<std::pair<int, std::string>> log; std::vector<bool> self_inval; };

template <class Router, class... Args> struct Runner {
    Router router;
    std::vector<ObsRec> obs;
    std::vector<std::unique_ptr<USubscription>> handles;   // index = observer id
    std::set<Key> stored;                                   // model of stored keys (prefix-closed), root excluded
    std::set<Key> holds;                                    // keys that hold a subject
    Shared sh;
    std::vector<Key> universe;
    int nameLimit = 6, notifies = 0;
    bool c13 = false, nt = false;

    bool wide = false; size_t maxObs = 24;
    std::set<Key> uniset;
    void note_key(const Key &k) {   // wide mode: the universe is what was ever subscribed, its prefixes, and one non-stored neighbour per key
        if (!wide) return;
        for (size_t n = 0; n <= k.size(); ++n) { Key pre(k.begin(), k.begin() + (long)n); if (uniset.insert(pre).second) universe.push_back(pre); }
        if (!k.empty()) { Key nb = k; nb.back() = (nb.back() + 1) % nameLimit; if (uniset.insert(nb).second) universe.push_back(nb); }
    }
    void build_universe() {
        universe.clear(); universe.push_back({});
        if (wide) { uniset.clear(); uniset.insert(Key{}); return; }
        for (size_t d = 1; d <= MAXDEPTH; ++d) {
            std::vector<Key> next;
            for (const Key &k : universe) if (k.size() == d - 1) for (int n = 0; n < nameLimit; ++n) { Key c = k; c.push_back(n); next.push_back(c); }
            universe.insert(universe.end(), next.begin(), next.end());
        }
    }
    bool live_at_or_below(const Key &k) const {
        for (auto &o : obs) if (o.subscribed && o.key.size() >= k.size() && std::equal(k.begin(), k.end(), o.key.begin())) return true;
        return false;
    }
    std::set<Key> observe_stored() { std::set<Key> s; for (const Key &k : universe) if (!k.empty() && router.exists(build(k))) s.insert(k); return s; }

    std::vector<int> expected_receivers(const Pattern &p) const {
        std::vector<int> r;
        for (auto &o : obs) if (o.subscribed && o.valid && full_match(p, o.key)) r.push_back(o.id);
        return r;
    }
    // one notify, fully checked (C06): exact receivers, each once, exact arguments, return value
    // every second notify passes its pattern in ONE long-lived RoutingKey variable that is re-assigned each time (copy assignment
    // re-uses the vector's storage: the same RoutingKeyLevel objects, at the same addresses, now hold another pattern) - under
    // ASan a freshly built temporary never re-uses an address, a re-assigned variable always does
    std::optional<RoutingKey> keyvar;
    const RoutingKey &in_reassigned_variable(const Pattern &p) { RoutingKey k = build(p); if (keyvar) *keyvar = k; else keyvar.emplace(k); return *keyvar; }
    std::multiset<int> checked_notify(const Pattern &p, const char *when) {
        sh.log.clear();
        ++notifies;
        if (notifies % 2 == 0) label("notify_with_reassigned_key_variable");
        auto [ret, args] = (notifies % 2 == 0) ? Sig<Args...>::notify(router, in_reassigned_variable(p), notifies) : Sig<Args...>::notify(router, build(p), notifies);
        std::vector<int> want = expected_receivers(p);
        std::multiset<int> got; for (auto &e : sh.log) got.insert(e.first);
        for (int id : want) if (got.count(id) != 1)
            violation("DELIVERY", "%s: notify(%s): observer %d (key %s) was invoked %zu times, expected once", when, show(p).c_str(), id, show(obs[(size_t)id].key).c_str(), got.count(id));
        for (auto &e : sh.log) if (std::find(want.begin(), want.end(), e.first) == want.end())
            violation("DELIVERY", "%s: notify(%s) invoked observer %d whose key %s does not match the pattern level by level (or which is not subscribed/valid)", when, show(p).c_str(), e.first, show(obs[(size_t)e.first].key).c_str());
        for (auto &e : sh.log) if (e.second != args)
            violation("ARGUMENTS", "%s: notify(%s): observer %d received (%s), passed (%s)", when, show(p).c_str(), e.first, e.second.c_str(), args.c_str());
        size_t wantRet = 0; for (const Key &k : holds) if (full_match(p, k)) ++wantRet;
        if (ret != wantRet) violation("RETURN", "%s: notify(%s) returned %zu, %zu distinct matched keys hold a subject", when, show(p).c_str(), ret, wantRet);
        // classification
        std::set<Key> mk; for (int id : want) mk.insert(obs[(size_t)id].key);
        bool anyRx = false; for (auto &l : p) anyRx |= l.regex;
        if (anyRx && mk.size() >= 2 && sizeof...(Args) > 0) {
            bool sibling = false; for (auto &o : obs) if (o.subscribed && o.key.size() == p.size() && !full_match(p, o.key)) sibling = true;
            bool repeated = false; for (const Key &k : mk) { std::set<int> s(k.begin(), k.end()); if (s.size() < k.size()) repeated = true; }
            if (sibling || repeated) { if (!c13) nt = true; label("regex_notify_two_keys_with_nonmatching_sibling"); }
        }
        if (want.size() >= 2) label("notify_multiple_receivers");
        {
            // self-invalidating observers that were called become invalid; invalid observers of notified subjects are removed lazily
            for (auto &o : obs) if (o.subscribed && full_match(p, o.key)) {
                if (o.valid && o.pending_self) { o.valid = false; o.pending_self = false; }
            }
            for (auto &o : obs) if (o.subscribed && !o.valid && full_match(p, o.key)) { o.subscribed = false; label("lazy_removal"); }
        }
        return got;
    }

    void check_structure(const char *when) {
        std::set<Key> seen = observe_stored();
        if (seen != stored) {
            for (const Key &k : seen) if (!stored.count(k)) violation("STORED", "%s: key %s exists although it was never stored (or was removed)", when, show(k).c_str());
            for (const Key &k : stored) if (!seen.count(k)) violation("STORED", "%s: key %s no longer exists although nothing removed it", when, show(k).c_str());
        }
        for (const Key &k : seen) if (k.size() > 1) { Key par(k.begin(), k.end() - 1); if (!seen.count(par)) violation("STORED", "%s: stored keys are not prefix-closed: %s exists, its parent does not", when, show(k).c_str()); }
        size_t longest = 0; for (const Key &k : seen) longest = std::max(longest, k.size());
        size_t d = router.depth();
        if (d != 1 + longest) violation("DEPTH", "%s: depth() = %zu, the longest stored key has %zu levels (expected %zu)", when, d, longest, 1 + longest);
        if (!router.exists(build(Key{}))) violation("STORED", "%s: the root does not exist", when);
    }
    void check_exists(const Pattern &p, const char *when) {
        bool want = p.empty();
        for (const Key &k : stored) if (full_match(p, k)) want = true;
        bool got = router.exists(build(p));
        if (got != want) violation("EXISTS", "%s: exists(%s) = %d, but %s stored key or key prefix matches it level by level", when, show(p).c_str(), (int)got, want ? "a" : "no");
    }

    int subscribe(const Key &k, bool selfview) {
        int id = (int)obs.size();
        obs.push_back(ObsRec{id, k}); obs.back().selfview = selfview;
        sh.self_inval.push_back(false);
        Shared *sp = &sh;
        RoutingKey rk = build(k);
        if (!selfview) {
            handles.push_back(std::make_unique<USubscription>(router.template subscribe<Args...>(rk, [sp, id](Args... a) { Shared *s = sp; int i = id; s->log.emplace_back(i, render(a...)); })));
        } else {
            using SV = typename Observer<Args...>::SelfView;
            handles.push_back(std::make_unique<USubscription>(router.template subscribe<Args...>(rk, [sp, id](SV self, Args... a) {
                Shared *s = sp; int i = id; s->log.emplace_back(i, render(a...));
                if (s->self_inval[(size_t)i]) { s->self_inval[(size_t)i] = false; self->invalidate(); }
            })));
        }
        for (size_t n = 1; n <= k.size(); ++n) stored.insert(Key(k.begin(), k.begin() + (long)n));
        holds.insert(k);
        note_key(k);
        return id;
    }

    void do_shrink(const Pattern &p, const char *when, bool all) {
        // the probe notifies must not change anything themselves: pending self-invalidation requests are cancelled (counted)
        for (auto &o : obs) if (o.pending_self) { o.pending_self = false; sh.self_inval[(size_t)o.id] = false; label_n("self_invalidations_cancelled_by_shrink", 1); }
        // probes: deliveries and existence before
        std::vector<Pattern> probes;
        for (size_t d = 0; d <= MAXDEPTH; ++d) { Pattern a; for (size_t i = 0; i < d; ++i) a.push_back(Level{true, 0}); probes.push_back(a); }
        for (auto &o : obs) if (o.subscribed && probes.size() < 12) { Pattern c; for (int n : o.key) c.push_back(Level{false, n}); probes.push_back(c); }
        probes.push_back(p);
        std::vector<std::multiset<int>> before;
        if (c13) for (auto &pr : probes) before.push_back(checked_notify(pr, when));
        std::set<Key> stored_before = stored;
        size_t depth_before = router.depth();
        if (all) router.shrink(build_all(p.size())); else router.shrink(build(p));
        std::set<Key> after = observe_stored();
        for (const Key &k : after) if (!stored_before.count(k)) violation("SHRINK", "%s: shrink(%s) brought key %s into existence", when, show(p).c_str(), show(k).c_str());
        bool removedSome = false, liveSiblingStayed = false;
        for (const Key &k : stored_before) if (!after.count(k)) {
            removedSome = true;
            if (live_at_or_below(k)) violation("SHRINK", "%s: shrink(%s) removed key %s although a live subscription exists at or below it", when, show(p).c_str(), show(k).c_str());
            // it only removes dead keys lying along the pattern: the node that drops a child is one the pattern reaches
            {
                Key par(k.begin(), k.end() - 1);
                if (!(par.size() <= p.size() && prefix_matches(p, par, par.size())))
                    violation("SHRINK", "%s: shrink(%s) removed key %s whose parent does not lie on the pattern's path", when, show(p).c_str(), show(k).c_str());
            }
            Key par(k.begin(), k.end() - 1);
            for (const Key &s : after) if (s.size() == k.size() && std::equal(par.begin(), par.end(), s.begin())) liveSiblingStayed = true;
        }
        // full-depth wildcard shrink: no dead branch remains
        bool wildcard = true; for (auto &l : p) wildcard &= l.regex && l.idx == 0;
        size_t longest = 0; for (const Key &k : stored_before) longest = std::max(longest, k.size());
        if (wildcard && p.size() >= longest) {
            for (const Key &k : after) {
                bool anyObs = false;   // keys holding an invalidated, not yet lazily removed observer are "don't care"
                for (auto &o : obs) if (!o.subscribed && !o.valid && o.key.size() >= k.size() && std::equal(k.begin(), k.end(), o.key.begin())) anyObs = true;
                for (auto &o : obs) if (o.subscribed && !o.valid && o.key.size() >= k.size() && std::equal(k.begin(), k.end(), o.key.begin())) anyObs = true;
                if (!live_at_or_below(k) && !anyObs) violation("SHRINK", "%s: after the full-depth wildcard shrink the dead key %s still exists", when, show(k).c_str());
            }
            label("full_depth_wildcard_shrink");
        }
        stored = after;
        for (auto it = holds.begin(); it != holds.end();) if (!after.count(*it) && !it->empty()) it = holds.erase(it); else ++it;
        if (c13) {
            for (size_t i = 0; i < probes.size(); ++i) {
                std::multiset<int> now = checked_notify(probes[i], when);
                if (now != before[i]) violation("SHRINK", "%s: shrink(%s) changed which observers notify(%s) reaches (%zu before, %zu after)", when, show(p).c_str(), show(probes[i]).c_str(), before[i].size(), now.size());
            }
            if (removedSome && liveSiblingStayed) { nt = true; label("shrink_removed_key_next_to_live_sibling"); }
        }
        if (removedSome) label("shrink_removed_keys");
        (void)depth_before;
    }

    void run(const Case &c) {
        c13 = c.prop == "C13";
        { unsigned sel = (unsigned)hget(c, 2, 3) % 6;     // 3..6 names: small universes make collisions likely; 40 / 64 names: wide trees
          if (sel < 4) nameLimit = 3 + (int)sel; else { nameLimit = sel == 4 ? 40 : 64; wide = true; maxObs = 220; label("wide_tree"); } }
        build_universe();
        label(Sig<Args...>::name);
        int opno = 0;
        for (const Op &o : c.ops) {
            ++opno;
            if (o.k < 0 || o.k >= NK) { count_skipped(); continue; }
            char when[96]; snprintf(when, sizeof when, "op %d (%s a=%d b=%d c=%d)", opno, kname(o.k), o.a, o.b, o.c);
            bool done = true;
            switch (o.k) {
            case SUBSCRIBE: case SUBSCRIBE_SELFVIEW: {
                if (obs.size() >= maxObs) { done = false; break; }
                Key k = decode_key(o.a, o.b, nameLimit);
                // construction, not rejection: most new keys are relatives of existing ones, so that siblings, children and
                // several observers per key are the normal case rather than a coincidence
                if (!obs.empty() && (o.c & 3) != 0) {
                    Key base = obs[(unsigned)(o.a >> 2) % obs.size()].key;
                    int nm = (int)((unsigned)o.b % (unsigned)nameLimit);
                    switch (o.c & 3) {
                    case 1: if (!base.empty()) { base.back() = nm; k = base; label("subscribe_sibling"); } break;       // sibling (or the same key again)
                    case 2: if (base.size() < MAXDEPTH) { base.push_back(nm); k = base; label("subscribe_child"); } break;
                    default: k = base; label("subscribe_same_key"); break;
                    }
                }
                int id = subscribe(k, o.k == SUBSCRIBE_SELFVIEW);
                note("%s: observer %d at %s", when, id, show(k).c_str());
                break;
            }
            case SUBSCRIBE_MANY: {
                // many siblings under one parent (a fan-out beyond 32 / 48 children is only reachable this way)
                static const int counts[4] = {10, 34, 50, 60};
                int want = std::min(counts[(unsigned)o.c % 4], nameLimit);
                Key parent = obs.empty() ? Key{} : obs[(unsigned)o.a % obs.size()].key;
                if (!parent.empty() && ((o.c >> 2) & 1)) parent.pop_back();
                if (parent.size() >= MAXDEPTH) parent.resize(MAXDEPTH - 1);
                int made = 0;
                for (int i = 0; i < want && obs.size() < maxObs; ++i) { Key k = parent; k.push_back((int)(((unsigned)o.b + (unsigned)i) % (unsigned)nameLimit)); subscribe(k, false); ++made; }
                note("%s: %d siblings under %s", when, made, show(parent).c_str());
                if (made > 32) label("fan_out_over_32"); if (made > 48) label("fan_out_over_48");
                if (!made) done = false;
                break;
            }
            case UNSUBSCRIBE_SIBLINGS: {
                if (obs.empty()) { done = false; break; }
                Key parent = obs[(unsigned)o.a % obs.size()].key; if (!parent.empty()) parent.pop_back();
                int n = 0;
                for (auto &r : obs) {
                    if (!r.subscribed || !r.valid || r.key.size() != parent.size() + 1 || !std::equal(parent.begin(), parent.end(), r.key.begin())) continue;
                    if ((o.c & 1) && n % 7 == 3) { ++n; continue; }   // optionally leave a few alive
                    (*handles[(size_t)r.id])->unsubscribe(); r.subscribed = false; ++n;
                }
                note("%s: %d observers under %s", when, n, show(parent).c_str());
                if (n > 32) label("mass_unsubscribe_over_32");
                if (!n) done = false;
                break;
            }
            case UNSUBSCRIBE: {
                if (obs.empty()) { done = false; break; }
                ObsRec &r = obs[(unsigned)o.a % obs.size()];
                if (!r.subscribed || !r.valid) { done = false; break; }   // handles of invalidated observers are never touched again
                if (!(*handles[(size_t)r.id])->isValid()) violation("HANDLE", "%s: handle of subscribed observer %d is not valid", when, r.id);
                (*handles[(size_t)r.id])->unsubscribe();
                r.subscribed = false;
                note("%s: observer %d at %s", when, r.id, show(r.key).c_str());
                label("unsubscribe");
                break;
            }
            case SELF_INVALIDATE_NEXT: {
                if (obs.empty()) { done = false; break; }
                ObsRec &r = obs[(unsigned)o.a % obs.size()];
                if (!r.subscribed || !r.valid || !r.selfview) { done = false; break; }
                sh.self_inval[(size_t)r.id] = true; r.pending_self = true; label("selfview_invalidation");
                break;
            }
            case NOTIFY: { Pattern p = decode_pattern(o.a, o.b, o.c, nameLimit); note("%s: %s", when, show(p).c_str()); checked_notify(p, when); break; }
            case NOTIFY_CONCRETE: {
                // a pattern derived from an existing observer's key: per level either the key's own name or a regex
                if (obs.empty()) { done = false; break; }
                Pattern p; unsigned ub = (unsigned)o.b;
                const Key &bk = obs[(unsigned)o.a % obs.size()].key;
                for (int n : bk) {
                    bool rx = (((unsigned)o.c >> p.size()) & 1) || (((unsigned)o.c & 8) && p.size() + 1 == bk.size());   // bit 3: the last level is a regex (reaches the siblings)
                    static const int broad[16] = {0, 0, 0, 0, 1, 1, 1, 3, 3, 4, 4, 2, 6, 7, 5, 9};   // biased towards regexes that match several names
                    p.push_back(rx ? Level{true, broad[ub % 16]} : Level{false, n});
                    ub /= 11;
                }
                note("%s: %s", when, show(p).c_str()); checked_notify(p, when); break;
            }
            case SHRINK: { Pattern p = decode_pattern(o.a, o.b, o.c, nameLimit, MAXDEPTH + 1); note("%s: %s", when, show(p).c_str()); do_shrink(p, when, false); label("shrink"); break; }
            case SHRINK_DERIVED: {
                // a shrink pattern derived from the key of an observer that is no longer subscribed (a dead key is what shrink is
                // about), per level the key's own name or a broad regex, optionally one level shorter or longer
                if (obs.empty()) { done = false; break; }
                size_t start = (unsigned)o.a % obs.size(), pick = start;
                for (size_t i = 0; i < obs.size(); ++i) { size_t j = (start + i) % obs.size(); if (!obs[j].subscribed) { pick = j; break; } }
                Pattern p; unsigned ub = (unsigned)o.b;
                static const int broad[8] = {0, 0, 0, 1, 3, 4, 2, 6};
                for (int n : obs[pick].key) { bool rx = ((unsigned)o.c >> p.size()) & 1; p.push_back(rx ? Level{true, broad[ub % 8]} : Level{false, n}); ub /= 8; }
                switch (((unsigned)o.c >> 4) & 3) { case 1: if (!p.empty()) p.pop_back(); break; case 2: p.push_back(Level{true, 0}); break; default: break; }
                note("%s: %s", when, show(p).c_str()); do_shrink(p, when, false); label("shrink"); label("shrink_derived_from_dead_key");
                break;
            }
            case SHRINK_ALL: { Pattern p; size_t d = (unsigned)o.a % (MAXDEPTH + 2); for (size_t i = 0; i < d; ++i) p.push_back(Level{true, 0}); note("%s: %s (built with all())", when, show(p).c_str()); do_shrink(p, when, true); label("shrink"); break; }
            case EXISTS: { Pattern p = decode_pattern(o.a, o.b, o.c, nameLimit, MAXDEPTH + 1); check_exists(p, when); label("exists_probe"); break; }
            case DEPTH: break;   // check_structure() reads depth() after every op
            }
            if (done) count_ops(); else count_skipped();
            check_structure(when);
            if (c13 && nt && (o.k == SUBSCRIBE || o.k == NOTIFY || o.k == EXISTS)) label("probe_or_resubscribe_after_partial_shrink");
        }
        if (nt) nontrivial();
    }
};

template <class Router> void dispatch(const Case &c) {
    switch ((unsigned)hget(c, 0, 0) % 6) {
    case 0: { Runner<Router> r; r.run(c); break; }
    case 1: { Runner<Router, int> r; r.run(c); break; }
    case 2: { Runner<Router, const std::string &> r; r.run(c); break; }
    case 3: { Runner<Router, std::string> r; r.run(c); break; }
    case 4: { Runner<Router, int, const std::string &> r; r.run(c); break; }
    default: { Runner<Router, Payload> r; r.run(c); break; }
    }
}
}} // namespace vf::router
