// Executor group "router" (g++, -fno-sanitize=vptr: SubjectRouter stores every Subject<Args...> behind a Subject<>* by design):
//   C06 SubjectRouter reaches exactly the observers whose key matches the pattern
//   C13 shrink is invisible to delivery; exists/depth stay consistent
// The two router types are compiled in separate TUs (plain.cpp, concurrent.cpp) to keep <regex> compile times parallel.
#include "../../engine/common/exec.h"
namespace vf {
const char *const exec_props = "C06 C13";
void run_router_plain(const Case &c);
void run_router_concurrent(const Case &c);
void exec_case(const Case &c) {
    if ((unsigned)hget(c, 1, 0) % 2 == 0) { label("SubjectRouter"); run_router_plain(c); }
    else { label("ConcurrentSubjectRouter"); run_router_concurrent(c); }
}
} // namespace vf
