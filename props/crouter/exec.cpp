// Executor for C11: ConcurrentSubjectRouter operations are atomic with respect to each other (controlled scheduler, g++).
// Oracle (necessary conditions of linearizability, never more):
//   EXCLUSION   no user code that tulz runs under the write lock (callable moved into the new observer during subscribe,
//               observer destroyed during unsubscribe) executes while a callback is between ENTER and EXIT, and no
//               subscribe/unsubscribe/shrink both starts and returns inside one callback execution
//   AFTER_UNSUB once unsubscribe(o) has returned, o is never invoked again
//   INSTANT     for each notify there is an instant t in [call, return] with
//               {matching observers definitely subscribed at t} <= delivered <= {matching observers possibly subscribed at t}
//   QUERY       exists()/depth() results are explainable by the keys definitely / possibly present during the call
//   ASan        memory safety
#include "../../engine/common/exec.h"
#include "../../engine/vsched/vsched.h"

#include <tulz/observer/routing/ConcurrentSubjectRouter.h>
#include <tulz/observer/routing/RoutingKeyBuilder.h>

#include <climits>
#include <memory>
#include <set>
#include <thread>
#include <unistd.h>

using namespace tulz;

namespace vf {
const char *const exec_props = "C11";

namespace {
using Key = std::vector<int>;              // name indices over {"a","b"}, depth 0..2
struct Level { bool all; int name; };
using Pattern = std::vector<Level>;
const char *NAMES[] = {"a", "b"};

Key decode_key(int a, int b) { Key k; unsigned d = (unsigned)a % 3, ub = (unsigned)b; for (unsigned i = 0; i < d; ++i) { k.push_back((int)(ub & 1)); ub >>= 1; } return k; }
Pattern decode_pattern(int a, int b, int c) { Pattern p; unsigned d = (unsigned)a % 3, ub = (unsigned)b, uc = (unsigned)c; for (unsigned i = 0; i < d; ++i) { p.push_back(Level{(bool)((uc >> i) & 1), (int)(ub & 1)}); ub >>= 1; } return p; }
bool matches(const Pattern &p, const Key &k) { if (p.size() != k.size()) return false; for (size_t i = 0; i < p.size(); ++i) if (!p[i].all && p[i].name != k[i]) return false; return true; }
bool at_or_below(const Key &k, const Key &o) { return o.size() >= k.size() && std::equal(k.begin(), k.end(), o.begin()); }
RoutingKey build(const Key &k) { RoutingKeyBuilder b; for (int n : k) b.level(std::string(NAMES[n])); return b.build(); }
RoutingKey build(const Pattern &p) { RoutingKeyBuilder b; for (auto &l : p) { if (l.all) b.all(); else b.level(std::string(NAMES[l.name])); } return b.build(); }
std::string show(const Key &k) { std::string s = "/"; for (size_t i = 0; i < k.size(); ++i) { s += NAMES[k[i]]; if (i + 1 < k.size()) s += "/"; } return s; }
std::string show(const Pattern &p) { std::string s = "/"; for (size_t i = 0; i < p.size(); ++i) { s += p[i].all ? "*" : NAMES[p[i].name]; if (i + 1 < p.size()) s += "/"; } return s; }

constexpr long INF = LONG_MAX;
struct Obs { int id; Key key; int owner; long sub_call = INF, sub_ret = INF, unsub_call = INF, unsub_ret = INF; bool handle_live = false; int live_copies = 0; };
std::vector<Obs> obs;
std::vector<std::unique_ptr<USubscription>> handles;
long clk = 0;
int in_callback = 0;                 // callbacks between ENTER and EXIT (all threads)
std::vector<long> enter_stack;        // ENTER times of the callbacks in progress
int router_write_call[64];           // per thread: >0 while inside router.subscribe / unsubscribe (harness flag)
std::vector<int> *delivery_log[64];  // per thread: the notify in progress collects the observers it reaches
bool mutating_during_callback = false;
int write_user_code = 0;            // threads currently inside user code that tulz runs under the write lock
bool writes_lingered = false;


struct Sentinel {
    int id;
    explicit Sentinel(int i) : id(i) { ++obs[(size_t)id].live_copies; }
    Sentinel(const Sentinel &o) : id(o.id) { ++obs[(size_t)id].live_copies; event("copied"); }
    Sentinel(Sentinel &&o) noexcept : id(o.id) { ++obs[(size_t)id].live_copies; event("moved"); }
    ~Sentinel() { if (--obs[(size_t)id].live_copies == 0) event("destroyed"); }
    void event(const char *what) const {
        int tid = vsched::self();
        if (tid >= 0 && router_write_call[tid] > 0 && in_callback > 0)
            violation("EXCLUSION", "the callable of observer %d was %s inside a subscribe/unsubscribe call of thread t%d while a callback of another operation was still running (a delivery was in progress)", id, what, tid);
        // write operations exclude each other too: this user code runs under the write lock and lingers there for one scheduling
        // point, so that another thread's subscribe/unsubscribe gets the chance to (wrongly) run its own at the same time
        if (tid >= 0 && router_write_call[tid] > 0) {
            if (++write_user_code > 1)
                violation("EXCLUSION", "the callable of observer %d was %s inside a subscribe/unsubscribe call of thread t%d while another thread's subscribe/unsubscribe was executing user code under the write lock: two write operations overlap", id, what, tid);
            if (write_user_code == 1 && vsched::nthreads() > 2) writes_lingered = true;
            vsched::yield();
            --write_user_code;
        }
    }
};

void callback(int id, int yields) {
    int tid = vsched::self();
    Obs &o = obs[(size_t)id];
    note("t%d ENTER cb%d", tid, id);
    if (o.unsub_ret != INF) violation("AFTER_UNSUB", "observer %d (key %s) is invoked after its unsubscribe() returned", id, show(o.key).c_str());
    if (tid >= 0 && delivery_log[tid]) delivery_log[tid]->push_back(id);
    long entered = clk++;
    ++in_callback; enter_stack.push_back(entered);
    if (yields >= 3) {
        // gate: hold the delivery open until another thread is parked inside a mutating router call (it had to wait for
        // this delivery) or nobody else can run; this manufactures the window "write operation arrives during a delivery"
        label("gated_callback");
        vsched::wait_until([tid] {
            bool others_stuck = true;
            for (int t = 0; t < vsched::nthreads(); ++t) {
                if (t == tid) continue;
                vsched::St st = vsched::state(t);
                if (router_write_call[t] > 0 && st == vsched::B_CV) return true;
                if (st == vsched::RUNNABLE || st == vsched::B_MUTEX) others_stuck = false;
            }
            return others_stuck;
        });
    } else {
        for (int i = 0; i < yields; ++i) vsched::yield();
    }
    --in_callback; ++clk;
    for (size_t i = 0; i < enter_stack.size(); ++i) if (enter_stack[i] == entered) { enter_stack.erase(enter_stack.begin() + (long)i); break; }   // callbacks of concurrent readers overlap freely
    note("t%d EXIT  cb%d", tid, id);
}

void on_deadlock() {
    std::string s;
    for (int t = 0; t < vsched::nthreads(); ++t) { char b[64]; snprintf(b, sizeof b, " t%d:%d", t, (int)vsched::state(t)); s += b; }
    violation("DEADLOCK", "no thread can run (thread states:%s)", s.c_str());
}
void on_steps() { internal_error("scheduler step limit reached"); }

enum K { NOTIFY = 0, SUBSCRIBE, UNSUBSCRIBE, SHRINK, EXISTS, DEPTH, NK };
const char *kname[] = {"notify", "subscribe", "unsubscribe", "shrink", "exists", "depth"};

// a write operation must not both start and finish inside one callback execution
struct WriteOpGuard {
    long call; const char *what; std::vector<long> active_at_call;
    explicit WriteOpGuard(const char *w) : call(clk++), what(w), active_at_call(enter_stack) { if (in_callback > 0) mutating_during_callback = true; }
    void returned() {
        for (long e : active_at_call)
            for (long now : enter_stack)
                if (e == now) violation("EXCLUSION", "%s was called and returned while one and the same callback execution (entered @%ld) was still in progress: it took effect during a delivery", what, e);
        ++clk;
    }
};

} // namespace

void exec_case(const Case &c) {
    int nth = 2 + (unsigned)hget(c, 0, 0) % 3;        // 2..4 threads
    int prepop = (unsigned)hget(c, 1, 0) % 4;
    obs.reserve(c.ops.size() + 48); handles.reserve(c.ops.size() + 48);
    std::vector<std::vector<Op>> per((size_t)nth);
    for (const Op &o : c.ops) { if (o.k < 0 || o.k >= NK) { count_skipped(); continue; } per[(unsigned)o.a % (unsigned)nth].push_back(o); }

    vsched::on_deadlock = on_deadlock; vsched::on_step_limit = on_steps;
    vsched::set_mode_pct(hget(c, 3, 0) == 1); if (hget(c, 3, 0) == 1) label("pct_schedule");
    vsched::begin(c.sched.data(), c.sched.size());
    {
        auto router = std::make_unique<ConcurrentSubjectRouter>();
        auto do_subscribe = [&](const Key &k, int owner, int yields, int tid) {
            int id = (int)obs.size();
            obs.push_back(Obs{id, k, owner});
            handles.emplace_back();
            Obs &o = obs.back();
            RoutingKey rk = build(k);
            WriteOpGuard g("subscribe()");
            o.sub_call = g.call;
            note("t%d CALL subscribe(%s) -> observer %d", tid, show(k).c_str(), id);
            ++router_write_call[tid];
            handles[(size_t)id] = std::make_unique<USubscription>(router->subscribe(rk, [s = Sentinel(id), id, yields]() { int i = id, y = yields; callback(i, y); }));
            --router_write_call[tid];
            o.sub_ret = clk; g.returned(); o.handle_live = true;
            note("t%d RET  subscribe -> observer %d", tid, id);
        };
        for (int i = 0; i < prepop; ++i) do_subscribe(decode_key(1 + i, i * 3 + hget(c, 2, 0)), i % nth, i == 0 ? 3 : 1 + i % 2, 0);
        // "crowd": 36 more observers on ONE key (thresholds inside Subject's containers), only every sixth one yields
        if ((unsigned)hget(c, 4, 0) % 4 == 3) { label("crowd_on_one_key"); for (int i = 0; i < 36; ++i) do_subscribe(Key{0}, i % nth, i % 6 == 0 ? 1 : 0, 0); }

        std::vector<std::thread> th;
        for (int t = 0; t < nth; ++t) {
            th.emplace_back([&, t] {
                int tid = vsched::self();
                for (const Op &o : per[(size_t)t]) {
                    switch (o.k) {
                    case NOTIFY: {
                        Pattern p = decode_pattern(o.b, o.c, o.c >> 2);
                        std::vector<int> delivered; delivery_log[tid] = &delivered;
                        long call = clk++;
                        note("t%d CALL notify(%s)", tid, show(p).c_str());
                        size_t ret = router->notify(build(p));
                        long retAt = clk++;
                        delivery_log[tid] = nullptr;
                        note("t%d RET  notify(%s) = %zu, reached %zu observers", tid, show(p).c_str(), ret, delivered.size());
                        std::multiset<int> D(delivered.begin(), delivered.end());
                        for (int id : D) if (D.count(id) > 1) violation("INSTANT", "notify(%s) invoked observer %d %zu times", show(p).c_str(), id, D.count(id));
                        for (int id : D) if (!matches(p, obs[(size_t)id].key)) violation("INSTANT", "notify(%s) invoked observer %d whose key %s does not match", show(p).c_str(), id, show(obs[(size_t)id].key).c_str());
                        bool found = false;
                        for (long tt = call; tt <= retAt && !found; ++tt) {
                            bool ok = true;
                            for (const Obs &x : obs) {
                                if (!matches(p, x.key)) continue;
                                bool definitely = x.sub_ret < tt && tt < x.unsub_call;
                                bool possibly = x.sub_call < tt && tt < x.unsub_ret;
                                bool in = D.count(x.id) > 0;
                                if ((definitely && !in) || (in && !possibly)) { ok = false; break; }
                            }
                            found = ok;
                        }
                        if (!found) {
                            std::string d; for (int id : D) d += " " + std::to_string(id);
                            violation("INSTANT", "notify(%s) in [@%ld,@%ld] reached {%s }: there is no single instant in that interval at which exactly these observers were subscribed", show(p).c_str(), call, retAt, d.c_str());
                        }
                        if (!D.empty()) label("notify_delivered");
                        break;
                    }
                    case SUBSCRIBE: do_subscribe(decode_key(o.b, o.c), t, 1 + (o.c >> 3) % 4 % 3 + ((o.c >> 3) % 4 == 3 ? 2 : 0), tid); label("subscribe"); break;
                    case UNSUBSCRIBE: {
                        std::vector<int> mine; for (const Obs &x : obs) if (x.owner == t && x.handle_live) mine.push_back(x.id);
                        if (mine.empty()) { count_skipped(); continue; }
                        Obs &x = obs[(size_t)mine[(unsigned)o.b % mine.size()]];
                        x.handle_live = false;
                        WriteOpGuard g("unsubscribe()");
                        x.unsub_call = g.call;
                        note("t%d CALL unsubscribe(observer %d)", tid, x.id);
                        ++router_write_call[tid];
                        (*handles[(size_t)x.id])->unsubscribe();
                        --router_write_call[tid];
                        x.unsub_ret = clk; g.returned();
                        note("t%d RET  unsubscribe(observer %d)", tid, x.id);
                        if (x.live_copies != 0) violation("EXCLUSION", "after unsubscribe() returned, %d copies of observer %d's callable are still alive", x.live_copies, x.id);
                        label("unsubscribe");
                        break;
                    }
                    case SHRINK: {
                        Pattern p = decode_pattern(o.b, o.c, o.c >> 2);
                        WriteOpGuard g("shrink()");
                        note("t%d CALL shrink(%s)", tid, show(p).c_str());
                        router->shrink(build(p));
                        g.returned();
                        note("t%d RET  shrink", tid);
                        label("shrink");
                        break;
                    }
                    case EXISTS: {
                        Pattern p = decode_pattern(o.b, o.c, o.c >> 2);
                        long call = clk++;
                        bool res = router->exists(build(p));
                        long retAt = clk++;
                        note("t%d exists(%s) = %d", tid, show(p).c_str(), (int)res);
                        auto key_matches_prefix = [&](const Key &k) { if (k.size() < p.size()) return false; Key pre(k.begin(), k.begin() + (long)p.size()); return matches(p, pre); };
                        if (!res) {
                            // false  =>  at some instant in the interval no matching key was definitely present
                            bool explained = p.empty() ? false : false;
                            for (long tt = call; tt <= retAt && !explained; ++tt) {
                                bool any = false;
                                for (const Obs &x : obs) if (key_matches_prefix(x.key) && x.sub_ret < tt && tt < x.unsub_call) any = true;
                                if (!any) explained = true;
                            }
                            if (p.empty() || !explained) violation("QUERY", "exists(%s) returned false although a matching key had a live subscription during the whole call", show(p).c_str());
                        } else if (!p.empty()) {
                            bool possible = false;
                            for (const Obs &x : obs) if (key_matches_prefix(x.key) && x.sub_call < retAt) possible = true;
                            if (!possible) violation("QUERY", "exists(%s) returned true although no matching key was ever subscribed before the call returned", show(p).c_str());
                        }
                        label("exists");
                        break;
                    }
                    case DEPTH: {
                        long call = clk++;
                        size_t d = router->depth();
                        long retAt = clk++;
                        size_t upper = 1; for (const Obs &x : obs) if (x.sub_call < retAt) upper = std::max(upper, 1 + x.key.size());
                        bool explained = false;
                        for (long tt = call; tt <= retAt && !explained; ++tt) {
                            size_t lower = 1; for (const Obs &x : obs) if (x.sub_ret < tt && tt < x.unsub_call) lower = std::max(lower, 1 + x.key.size());
                            if (d >= lower) explained = true;
                        }
                        if (d > upper || !explained) violation("QUERY", "depth() returned %zu; keys ever subscribed allow at most %zu, and live subscriptions require more during the whole call", d, upper);
                        label("depth");
                        break;
                    }
                    }
                    count_ops();
                }
            });
        }
        for (auto &t : th) t.join();
        // every handle dies before the router
        for (auto &h : handles) h.reset();
        router.reset();
        for (const Obs &x : obs) if (x.live_copies != 0) violation("EXCLUSION", "observer %d's callable has %d live copies after the router was destroyed", x.id, x.live_copies);
    }
    vsched::end();
    if (vsched::spurious_wakeups()) label("spurious_wakeup");
    { std::string w = "W"; for (uint8_t x : vsched::widths()) { if (w.size() > 4000) break; w += (char)('0' + (x > 9 ? 9 : x)); } aux(w); }
    label_n("switches", (long)vsched::switches());
    if (mutating_during_callback) { label("mutating_op_called_during_callback"); nontrivial(); }
}

} // namespace vf
