// Generator for C11: multi-thread programs over one ConcurrentSubjectRouter plus a schedule.
#include "../../engine/pbt/gen.h"
using namespace vf;
namespace {
enum K { NOTIFY = 0, SUBSCRIBE, UNSUBSCRIBE, SHRINK, EXISTS, DEPTH };
Register r11("C11", [](Tier t) {
    // op: a thread, b depth / handle choice, c packed names + wildcard bits + callback yields
    auto ops = genOps({{NOTIFY, 14, 3, 7, 63}, {SUBSCRIBE, 7, 3, 7, 63}, {UNSUBSCRIBE, 5, 3, 7, 0}, {SHRINK, 3, 3, 7, 63}, {EXISTS, 2, 3, 7, 63}, {DEPTH, 1, 3, 0, 0}},
                      t == THOROUGH ? 44 : 28);
    // h[0]: threads - 2 (0..2), h[1]: pre-populated subscriptions (0..3), h[2]: their key selector
    return rc::gen::weightedOneOf<Case>({{4, genCase("C11", genHeader({{0, 2}, {0, 3}, {0, 7}, {0, 0}, {0, 3}}), ops, genSched(t == THOROUGH ? 200 : 120))},
                                         {1, genCase("C11", genHeader({{0, 2}, {0, 3}, {0, 7}, {1, 1}, {0, 3}}), ops, genSchedPCT())}});
});

// ---- small-scope program space: 2 threads, each a sequence of 1-2 ops from {notify /a, subscribe /a, unsubscribe own, shrink /*},
// one pre-populated observer at /a whose callback is gated (holds the delivery open until a writer is parked or nobody can run)
RegisterEnum e11("C11", [] {
    EnumSpace e;
    e.count = 20 * 20;
    e.description = "ConcurrentSubjectRouter programs: 2 threads x (1 or 2 ops from {notify /a, subscribe /a, unsubscribe own handle, shrink /*}), one pre-populated observer at /a with a gated callback";
    e.at = [](size_t i) {
        auto seq = [](size_t s) { std::vector<int> v; if (s < 4) v = {(int)s}; else { s -= 4; v = {(int)(s / 4), (int)(s % 4)}; } return v; };
        static const int kinds[4] = {NOTIFY, SUBSCRIBE, UNSUBSCRIBE, SHRINK};
        Case c; c.prop = "C11"; c.h = {0, 1, 0};
        std::vector<int> a = seq(i % 20), b = seq(i / 20);
        for (size_t k = 0; k < std::max(a.size(), b.size()); ++k) {
            if (k < a.size()) c.ops.push_back(Op{kinds[a[k]], 0, 1, kinds[a[k]] == SHRINK ? 4 : 0});
            if (k < b.size()) c.ops.push_back(Op{kinds[b[k]], 1, 1, kinds[b[k]] == SHRINK ? 4 : 0});
        }
        return c;
    };
    return e;
}());
} // namespace
