// Generator for C11: multi-thread programs over one ConcurrentSubjectRouter plus a schedule.
#include "../../engine/pbt/gen.h"
using namespace vf;
namespace {
enum K { NOTIFY = 0, SUBSCRIBE, UNSUBSCRIBE, SHRINK, EXISTS, DEPTH };
Register r11("C11", [](Tier t) {
    // op: a thread, b depth / handle choice, c packed names + wildcard bits + callback yields
    auto ops = genOps({{NOTIFY, 14, 3, 7, 63}, {SUBSCRIBE, 7, 3, 7, 63}, {UNSUBSCRIBE, 5, 3, 7, 0}, {SHRINK, 3, 3, 7, 63}, {EXISTS, 2, 3, 7, 63}, {DEPTH, 1, 3, 0, 0}},
                      t == THOROUGH ? 44 : 28);
    // h[0]: threads - 2 (0..2), h[1]: pre-populated subscriptions (0..3), h[2]: their key selector
    return genCase("C11", genHeader({{0, 2}, {0, 3}, {0, 7}}), ops, genSched(t == THOROUGH ? 200 : 120));
});
} // namespace
