// C19 oracle, shared by the rapidcheck executor and the libFuzzer target.
// Independent parse (split at the first '_' and the first '.' after it) and linear lookup in the public tables.
#pragma once
#include <tulz/LocaleInfo.h>

#include <cstdlib>
#include <cstring>
#include <new>
#include <string>
#include <vector>

namespace c19 {
using tulz::LocaleInfo;

struct Verdict { bool ok = true; std::string cls, msg; bool nontrivial = false; bool fallback = false, ambiguous = false, by_code = false, by_name = false, long_part = false; };

inline int find_lang_code(const std::string &s) { for (int i = 0; i < LocaleInfo::languagesCount; ++i) if (s == LocaleInfo::languageInfo[i].code) return i; return -1; }
inline int find_lang_name(const std::string &s) { for (int i = 0; i < LocaleInfo::languagesCount; ++i) if (s == LocaleInfo::languageInfo[i].value) return i; return -1; }
inline int find_country(const std::string &s) {
    for (int i = 0; i < LocaleInfo::countiesCount; ++i) if (s == LocaleInfo::countryInfo[i].code || s == LocaleInfo::countryInfo[i].value) return i;
    return -1;
}
inline bool is_lang_code_str(const char *p) { for (int i = 0; i < LocaleInfo::languagesCount; ++i) if (!strcmp(p, LocaleInfo::languageInfo[i].code)) return true; return false; }

__attribute__((noinline)) inline void poison_stack() { volatile unsigned char b[8192]; for (size_t i = 0; i < sizeof b; ++i) b[i] = 0xA5; asm volatile("" ::: "memory"); }

// pointers that were never written show up as the 0xA5 pattern; anything else that is not readable is ASan's business
inline bool poisoned(const void *p) { return (uintptr_t)p == 0xA5A5A5A5A5A5A5A5ull; }

inline Verdict check(const std::string &input) {
    Verdict v;
    auto fail = [&](const char *cls, std::string m) { if (v.ok) { v.ok = false; v.cls = cls; v.msg = std::move(m); } };
    // exact-size heap copy, so that any read past the terminator is an ASan report
    char *s = static_cast<char *>(malloc(input.size() + 1));
    memcpy(s, input.data(), input.size()); s[input.size()] = 0;
    std::string str(s);       // the function sees a NUL-terminated string: an embedded NUL ends it

    poison_stack();
    alignas(LocaleInfo::Info) unsigned char storage[sizeof(LocaleInfo::Info)];
    memset(storage, 0xA5, sizeof storage);
    LocaleInfo::Info *r = new (storage) LocaleInfo::Info(LocaleInfo::get(s));   // guaranteed elision: built in place

    // ---- independent expectation
    size_t u = str.find('_');
    bool expect_ok = false; int lc = -1, ln = -1, ci = -1;
    std::string L, C;
    if (u != std::string::npos) {
        L = str.substr(0, u);
        std::string rest = str.substr(u + 1);
        size_t d = rest.find('.');
        C = d == std::string::npos ? rest : rest.substr(0, d);
        lc = find_lang_code(L); ln = find_lang_name(L); ci = find_country(C);
        expect_ok = (lc >= 0 || ln >= 0) && ci >= 0 && str.find('.') > u;
        // a country NAME containing '.' ("Virgin Islands, U.S.") is ambiguous in the documented format: accepted either way
        if (!expect_ok && (lc >= 0 || ln >= 0) && str.find('.') > u) {
            for (size_t dd = d; dd != std::string::npos; dd = rest.find('.', dd + 1)) {
                std::string alt = rest.substr(0, rest.find('.', dd + 1));
                if (find_country(alt) >= 0) v.ambiguous = true;
            }
            if (find_country(rest) >= 0) v.ambiguous = true;
        }
        v.long_part = L.size() >= 64 || C.size() >= 64;
    }
    bool has_dot = str.find('.') != std::string::npos;
    v.nontrivial = (u != std::string::npos && has_dot && (lc >= 0 || ln >= 0 || ci >= 0)) || v.long_part;

    auto bad_ptr = [&](const char *name, const char *p) {
        if (p == nullptr) { fail("RESULT", std::string(name) + " is null"); return true; }
        if (poisoned(p)) { fail("UNINITIALISED", std::string(name) + " was never written (still holds the poison pattern)"); return true; }
        return false;
    };
    bool got_ok = r->error == nullptr;
    if (poisoned(r->error)) fail("UNINITIALISED", "error was never written");
    if (v.ok && v.ambiguous) {
        // either answer; still every pointer must be sane
        if (!bad_ptr("languageCode", r->languageCode) && !bad_ptr("country", r->country)) bad_ptr("countryCode", r->countryCode);
    } else if (v.ok && expect_ok) {
        v.by_code = lc >= 0; v.by_name = lc < 0;
        if (!got_ok) fail("RESULT", "'" + str + "' names a known language and country but the fallback was returned");
        else if (!bad_ptr("languageCode", r->languageCode) && !bad_ptr("country", r->country) && !bad_ptr("countryCode", r->countryCode)) {
            const auto &ce = LocaleInfo::countryInfo[ci];
            if (strcmp(r->countryCode, ce.code) || strcmp(r->country, ce.value)) fail("RESULT", "country of '" + str + "': got " + r->countryCode + "/" + r->country + ", table says " + ce.code + "/" + ce.value);
            if (lc >= 0) {
                const char *code = LocaleInfo::languageInfo[lc].code;
                if (strcmp(r->languageCode, code)) fail("RESULT", "languageCode of '" + str + "' is " + r->languageCode + ", expected " + code);
                std::vector<std::string> want;
                for (int i = 0; i < LocaleInfo::languagesCount; ++i) if (!strcmp(LocaleInfo::languageInfo[i].code, code)) want.push_back(LocaleInfo::languageInfo[i].value);
                std::vector<std::string> got; for (const char *p : r->languages) { if (bad_ptr("languages[]", p)) break; got.push_back(p); }
                if (v.ok && got != want) fail("RESULT", "languages of code '" + L + "': got " + std::to_string(got.size()) + " names, the table has " + std::to_string(want.size()) + " names for it");
            } else {
                // by name: the code of a table entry with that name; the list contains the name and only names of that code
                bool code_ok = false;
                for (int i = 0; i < LocaleInfo::languagesCount; ++i) if (L == LocaleInfo::languageInfo[i].value && !strcmp(r->languageCode, LocaleInfo::languageInfo[i].code)) code_ok = true;
                if (!code_ok) fail("RESULT", "languageCode of language name '" + L + "' is " + r->languageCode + ", which is not the code of a table entry with that name");
                bool has = false;
                for (const char *p : r->languages) {
                    if (bad_ptr("languages[]", p)) break;
                    if (L == p) has = true;
                    bool same_code = false;
                    for (int i = 0; i < LocaleInfo::languagesCount; ++i) if (!strcmp(LocaleInfo::languageInfo[i].value, p) && !strcmp(LocaleInfo::languageInfo[i].code, r->languageCode)) same_code = true;
                    if (!same_code) fail("RESULT", std::string("languages contains '") + p + "' which is not a table name of code " + r->languageCode);
                }
                if (v.ok && !has) fail("RESULT", "languages of language name '" + L + "' does not contain that name");
            }
        }
    } else if (v.ok) {
        v.fallback = true;
        if (got_ok) {
            std::string lcod = (r->languageCode && !poisoned(r->languageCode)) ? (is_lang_code_str(r->languageCode) ? r->languageCode : "<not a table code>") : "<unset>";
            fail(poisoned(r->languageCode) ? "UNINITIALISED" : "RESULT", "'" + str + "' is not a known language_COUNTRY[.charset] but error is not set (languageCode " + lcod + ", " + std::to_string(r->languages.size()) + " languages)");
        } else if (!bad_ptr("languageCode", r->languageCode) && !bad_ptr("country", r->country) && !bad_ptr("countryCode", r->countryCode)) {
            if (strcmp(r->languageCode, "en") || strcmp(r->countryCode, "GB") || strcmp(r->country, "United Kingdom") || r->languages.size() != 1 ||
                strcmp(r->languages.front(), "English"))
                fail("RESULT", "fallback for '" + str + "' is not en/{English}/GB/United Kingdom");
        }
    }
    r->~Info();
    free(s);
    return v;
}
} // namespace c19
