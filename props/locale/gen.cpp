// Generator for C19: locale strings by construction (valid combinations, near misses, structure breakers, raw bytes).
#include "../../engine/pbt/gen.h"
using namespace vf;
namespace {
enum P { LANG_CODE = 0, LANG_NAME, COUNTRY_CODE, COUNTRY_NAME, UNDERSCORE, DOT, CHARSET, FILLER, CASE_CHANGED, TRUNCATED, UNKNOWN_CODE, BYTE };

rc::Gen<Op> pc(std::vector<int> kinds) {
    return rc::gen::map(rc::gen::tuple(rc::gen::elementOf(kinds), rng(0, 499), rng(0, 255)), [](const std::tuple<int, int, int> &t) { return Op{std::get<0>(t), std::get<1>(t), std::get<2>(t), 0}; });
}
rc::Gen<std::vector<Op>> seq(std::vector<rc::Gen<Op>> parts) {
    rc::Gen<std::vector<Op>> acc = rc::gen::just(std::vector<Op>{});
    for (auto &p : parts) acc = rc::gen::map(rc::gen::tuple(acc, p), [](const std::tuple<std::vector<Op>, Op> &t) { auto v = std::get<0>(t); v.push_back(std::get<1>(t)); return v; });
    return acc;
}
Register r19("C19", [](Tier t) {
    auto lang = pc({LANG_CODE, LANG_NAME}), country = pc({COUNTRY_CODE, COUNTRY_NAME}), us = pc({UNDERSCORE}), dot = pc({DOT}), cs = pc({CHARSET, FILLER});
    auto miss = pc({CASE_CHANGED, TRUNCATED, UNKNOWN_CODE, FILLER, BYTE});
    auto H = genHeader({{0, 0}});
    auto valid = rc::gen::oneOf(seq({lang, us, country}), seq({lang, us, country, dot, cs}), seq({lang, us, country, dot}));
    auto near = rc::gen::oneOf(seq({miss, us, country}), seq({lang, us, miss}), seq({miss, us, country, dot, cs}), seq({lang, us, miss, dot, cs}), seq({us, country}), seq({lang, us}),
                               seq({lang, country}), seq({lang, dot, cs, us, country}), seq({dot, lang, us, country}), seq({lang, us, us, country}), seq({lang, us, country, us, country}),
                               seq({lang, miss, us, country}), seq({lang, us, country, miss}), seq({lang, us, miss, country}));
    auto soup = genOps({{LANG_CODE, 4, 499, 255, 0}, {LANG_NAME, 3, 499, 255, 0}, {COUNTRY_CODE, 4, 499, 255, 0}, {COUNTRY_NAME, 3, 499, 255, 0}, {UNDERSCORE, 6, 0, 0, 0},
                        {DOT, 5, 0, 0, 0}, {CHARSET, 2, 4, 0, 0}, {FILLER, 4, 12, 6, 0}, {CASE_CHANGED, 2, 499, 255, 0}, {TRUNCATED, 2, 499, 255, 0}, {UNKNOWN_CODE, 2, 8, 0, 0},
                        {BYTE, 4, 0, 254, 0}}, t == THOROUGH ? 16 : 8);
    auto bytes = rc::gen::map(rc::gen::scale(3.0, rc::gen::container<std::vector<uint8_t>>(rc::gen::resize(100, rc::gen::arbitrary<uint8_t>()))),
                              [](const std::vector<uint8_t> &v) { return std::string(v.begin(), v.end()); });
    return rc::gen::weightedOneOf<Case>({{5, genCase("C19", H, valid)}, {6, genCase("C19", H, near)}, {4, genCase("C19", H, soup)},
                                         {1, genCase("C19", genHeader({{1, 1}}), rc::gen::just(std::vector<Op>{}), rc::gen::just(std::vector<uint8_t>{}), bytes)}});
});
} // namespace
