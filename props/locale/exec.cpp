// Executor for C19: LocaleInfo::get is total, memory-safe and consistent with its tables.
// A case is either a list of pieces (table entries, delimiters, near misses, fillers) or a raw byte blob.
#include "../../engine/common/exec.h"
#include "oracle.h"
#include <algorithm>
#include <cstring>
#include <vector>

namespace vf {
const char *const exec_props = "C19";

enum P { LANG_CODE = 0, LANG_NAME, COUNTRY_CODE, COUNTRY_NAME, UNDERSCORE, DOT, CHARSET, FILLER, CASE_CHANGED, TRUNCATED, UNKNOWN_CODE, BYTE, NP };

static std::string piece(const Op &o) {
    using tulz::LocaleInfo;
    unsigned a = (unsigned)o.a, b = (unsigned)o.b;
    static const size_t lens[] = {1, 2, 3, 5, 20, 62, 63, 64, 65, 66, 127, 200, 300};
    static const char *charsets[] = {"UTF-8", "1252", "utf8", "ISO-8859-1", ""};
    static const char *unknown[] = {"xx", "zz", "qq", "XX", "e", "eng", "EN", "gb", "Gb"};
    switch (o.k) {
    case LANG_CODE: return LocaleInfo::languageInfo[a % (unsigned)LocaleInfo::languagesCount].code;
    case LANG_NAME:
        if ((b & 7) == 7) {   // one of the eight longest language names: whole strings of 63 bytes and more that still resolve
            static std::vector<int> longest = [] { std::vector<int> v; for (int i = 0; i < LocaleInfo::languagesCount; ++i) v.push_back(i);
                std::stable_sort(v.begin(), v.end(), [](int x, int y) { return strlen(LocaleInfo::languageInfo[x].value) > strlen(LocaleInfo::languageInfo[y].value); }); v.resize(8); return v; }();
            return LocaleInfo::languageInfo[longest[(a / 7) % 8]].value;
        }
        return LocaleInfo::languageInfo[a % (unsigned)LocaleInfo::languagesCount].value;
    case COUNTRY_CODE: return LocaleInfo::countryInfo[a % (unsigned)LocaleInfo::countiesCount].code;
    case COUNTRY_NAME:
        if ((b & 7) == 7) {
            static std::vector<int> longest = [] { std::vector<int> v; for (int i = 0; i < LocaleInfo::countiesCount; ++i) v.push_back(i);
                std::stable_sort(v.begin(), v.end(), [](int x, int y) { return strlen(LocaleInfo::countryInfo[x].value) > strlen(LocaleInfo::countryInfo[y].value); }); v.resize(4); return v; }();
            return LocaleInfo::countryInfo[longest[(a / 7) % 4]].value;
        }
        return LocaleInfo::countryInfo[a % (unsigned)LocaleInfo::countiesCount].value;
    case UNDERSCORE: return "_";
    case DOT: return ".";
    case CHARSET: return charsets[a % 5];
    case FILLER: return std::string(lens[a % 13], (char)("xA_. 9\xC3"[b % 7]));
    case CASE_CHANGED: {
        std::string s = (b & 1) ? LocaleInfo::languageInfo[a % (unsigned)LocaleInfo::languagesCount].code : LocaleInfo::countryInfo[a % (unsigned)LocaleInfo::countiesCount].code;
        for (char &ch : s) ch = (b & 1) ? (char)toupper(ch) : (char)tolower(ch);
        return s;
    }
    case TRUNCATED: {
        std::string s = (b & 1) ? LocaleInfo::languageInfo[a % (unsigned)LocaleInfo::languagesCount].value : LocaleInfo::countryInfo[a % (unsigned)LocaleInfo::countiesCount].value;
        size_t cut = 1 + (b >> 1) % 3;
        return (b & 8) ? s + "s" : s.substr(0, s.size() > cut ? s.size() - cut : 0);
    }
    case UNKNOWN_CODE: return unknown[a % 9];
    case BYTE: return std::string(1, (char)(1 + b % 255));
    default: return "";
    }
}

void exec_case(const Case &c) {
    std::string input;
    if (hget(c, 0, 0) == 1) { input = c.blob; label("raw_bytes"); }
    else { for (const Op &o : c.ops) { if (o.k < 0 || o.k >= NP) { count_skipped(); continue; } input += piece(o); count_ops(); } label("pieces"); }
    if (verbose()) { std::string shown; for (unsigned char ch : input) { char b[8]; if (ch >= 32 && ch < 127) shown += (char)ch; else { snprintf(b, sizeof b, "\\x%02x", ch); shown += b; } } note("input (%zu bytes): %s", input.size(), shown.c_str()); }
    c19::Verdict v = c19::check(input);
    if (v.fallback) label("expect_fallback");
    if (v.by_code) label("language_by_code");
    if (v.by_name) label("language_by_name");
    if (v.ambiguous) label("ambiguous_country_name_with_dot");
    if (v.long_part) label("part_64_bytes_or_more");
    if (input.find('.') != std::string::npos && input.find('_') != std::string::npos && input.find('.') < input.find('_')) label("dot_before_underscore");
    if (v.nontrivial) nontrivial();
    if (!v.ok) violation(v.cls.c_str(), "%s", v.msg.c_str());
    if (input.size() >= 63 && !v.fallback) label("resolvable_string_of_63_bytes_or_more");
    // get() is a function of its argument: whatever was asked before, each answer is the one the tables give. Near neighbours of
    // the string (one byte more, one byte less, a charset appended) are asked in the same process, then the string itself again.
    std::vector<std::string> later{input + "x", input.empty() ? std::string("_") : input.substr(0, input.size() - 1), input + ".UTF-8", input};
    for (size_t i = 0; i < later.size(); ++i) {
        c19::Verdict w = c19::check(later[i]);
        if (!w.ok) violation(w.cls.c_str(), "call #%zu of this process, get() of %s: %s", i + 2, i + 1 == later.size() ? "the first string again" : i == 0 ? "the first string + \"x\"" : i == 1 ? "the first string minus its last byte" : "the first string + \".UTF-8\"", w.msg.c_str());
    }
    label("call_history_of_5");
}
} // namespace vf
