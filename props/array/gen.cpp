// Generator for C14: operation histories over a pool of 4 tulz::Array objects.
#include "../../engine/pbt/gen.h"
using namespace vf;
namespace {
enum K { CTOR_PTR_COPY = 0, CTOR_PTR_ADOPT, CTOR_IL, CTOR_SIZE, CTOR_SIZE_VALUE, CTOR_DEFAULT, COPY_CONSTRUCT, MOVE_CONSTRUCT, COPY_ASSIGN, MOVE_ASSIGN,
         SWAP, RESIZE, RESIZE_VALUE, WRITE, FRONT_BACK, ITERATE, DESTROY };
Register r14("C14", [](Tier t) {
    const int A = 3, B = 63, C = 15;
    auto ops = genOps({{CTOR_PTR_COPY, 7, A, B, C}, {CTOR_IL, 5, A, B, C}, {CTOR_SIZE, 4, A, B, C}, {CTOR_SIZE_VALUE, 4, A, B, C}, {CTOR_PTR_ADOPT, 3, A, B, C},
                       {CTOR_DEFAULT, 1, A, B, C}, {RESIZE, 8, A, B, C}, {RESIZE_VALUE, 7, A, B, C}, {WRITE, 8, A, B, C}, {COPY_CONSTRUCT, 5, A, B, C},
                       {COPY_ASSIGN, 6, A, B, C}, {MOVE_CONSTRUCT, 3, A, B, C}, {MOVE_ASSIGN, 4, A, B, C}, {SWAP, 3, A, B, C}, {DESTROY, 3, A, B, C},
                       {ITERATE, 1, A, B, C}, {FRONT_BACK, 1, A, B, C}}, t == THOROUGH ? 200 : 60);
    // h[0]: element type (0 -> int, 1/2 -> lifetime-tracked class), h[1]: tier (length bound 40 / 2000)
    return genCase("C14", genHeader({{0, 2}, {t, t}}), ops);
});
} // namespace
