// Executor for C14: tulz::Array has value semantics (contents, deep copies, moves, resize) and exact element lifetimes.
// Oracle: std::vector<std::optional<int>> reference model (indeterminate for int slots tulz leaves uninitialised),
// compared after every op; lifetime registry with NO tolerated shells; allocator-hook accounting; ASan.
#include "../../engine/common/exec.h"
#include "../../engine/common/alloctrack.h"
#include "../../engine/common/tracked.h"

#include <tulz/container/Array.h>

#include <memory>
#include <optional>
#include <set>
#include <vector>

namespace vf {
const char *const exec_props = "C14";

namespace {

enum K { CTOR_PTR_COPY = 0, CTOR_PTR_ADOPT, CTOR_IL, CTOR_SIZE, CTOR_SIZE_VALUE, CTOR_DEFAULT, COPY_CONSTRUCT, MOVE_CONSTRUCT, COPY_ASSIGN, MOVE_ASSIGN,
         SWAP, RESIZE, RESIZE_VALUE, WRITE, FRONT_BACK, ITERATE, DESTROY, NK };
const char *kname[] = {"Array(ptr,n,copy)", "Array(ptr,n,adopt)", "Array{init-list}", "Array(n)", "Array(n,value)", "Array()", "copy-construct", "move-construct",
                       "copy-assign", "move-assign", "swap", "resize(n)", "resize(n,value)", "write", "front/back", "iterate", "destroy"};

template <class T> struct Elem;
template <> struct Elem<int> { static int make(int v) { return v; } static int val(const int &x) { return x; } static constexpr bool tracked = false; };
template <> struct Elem<Tracked> { static Tracked make(int v) { return Tracked(v); } static int val(const Tracked &t) { return t.value; } static constexpr bool tracked = true; };

using Model = std::vector<std::optional<int>>;

template <class T> struct Runner {
    using A = tulz::Array<T>;
    static constexpr int NSLOT = 4;
    struct Slot { std::unique_ptr<A> a; Model m; bool unspecified = false; };
    Slot s[NSLOT];
    int maxLen = 40, nextVal = 1;
    std::set<uint32_t> reachable;
    bool nt = false;

    void destroy(Slot &sl) { { alloctrack::Scope t; sl.a.reset(); } sl.m.clear(); sl.unspecified = false; }

    void compare(const char *when, int idx, A &a, const Model &m, bool unspecified) {
        if (unspecified) {  // moved-from: valid but unspecified; its elements (swap semantics) still count as reachable
            if constexpr (Elem<T>::tracked) for (size_t i = 0; i < a.size(); ++i) reach(a[i], when);
            return;
        }
        VF_CHECK(a.size() == m.size(), "CONTENT", "%s: array %d size() = %zu, model %zu", when, idx, a.size(), m.size());
        VF_CHECK(a.empty() == m.empty(), "CONTENT", "%s: array %d empty() = %d", when, idx, (int)a.empty());
        const A &ca = a;
        for (size_t i = 0; i < m.size(); ++i) {
            if constexpr (Elem<T>::tracked) reach(a[i], when);
            if (!m[i]) continue;                       // indeterminate int slot: never compared until written
            int got = Elem<T>::val(a[i]);
            VF_CHECK(got == *m[i], "CONTENT", "%s: array %d [%zu] = %d, model %d (size %zu)", when, idx, i, got, *m[i], m.size());
            VF_CHECK(Elem<T>::val(ca[i]) == *m[i] && Elem<T>::val(a.array()[i]) == *m[i], "CONTENT", "%s: array %d const operator[]/array() disagree at %zu", when, idx, i);
        }
        size_t n = 0;
        for (auto it = a.begin(); it != a.end(); ++it, ++n) {
            VF_CHECK(n < m.size(), "CONTENT", "%s: array %d iteration yields more than %zu elements", when, idx, m.size());
            if (m[n]) VF_CHECK(Elem<T>::val(*it) == *m[n], "CONTENT", "%s: array %d iteration element %zu = %d, model %d", when, idx, n, Elem<T>::val(*it), *m[n]);
        }
        VF_CHECK(n == m.size(), "CONTENT", "%s: array %d iteration yields %zu elements, model %zu", when, idx, n, m.size());
        n = 0; for (auto it = ca.cbegin(); it != ca.cend(); ++it) ++n;
        VF_CHECK(n == m.size(), "CONTENT", "%s: array %d const iteration yields %zu elements, model %zu", when, idx, n, m.size());
        VF_CHECK((size_t)(a.end() - a.begin()) == m.size(), "CONTENT", "%s: array %d end()-begin() wrong", when, idx);
        if (!m.empty()) {
            VF_CHECK(&a.front() == &a[0] && &a.back() == &a[m.size() - 1], "CONTENT", "%s: array %d front()/back() do not refer to the first/last element", when, idx);
        }
    }
    void reach(const T &t, const char *when) {
        if constexpr (Elem<T>::tracked) {
            check_reachable(t, when);
            if (!reachable.insert(t.serial).second) violation("LIFETIME", "%s: element serial %u is reachable twice (shallow copy)", when, t.serial);
        }
    }
    void check_all(const char *when) {
        reachable.clear();
        for (int i = 0; i < NSLOT; ++i) if (s[i].a) compare(when, i, *s[i].a, s[i].m, s[i].unspecified);
        // storage of distinct arrays must be distinct (deep copies)
        for (int i = 0; i < NSLOT; ++i) for (int j = i + 1; j < NSLOT; ++j)
            if (s[i].a && s[j].a && s[i].a->size() && s[j].a->size())
                VF_CHECK(s[i].a->array() != s[j].a->array(), "CONTENT", "%s: arrays %d and %d share their storage", when, i, j);
        if constexpr (Elem<T>::tracked) {
            Registry &r = Registry::get();
            long live = r.count(Registry::LIVE);
            if ((size_t)live != reachable.size()) {
                for (size_t sn = 1; sn < r.st.size(); ++sn)
                    if (r.st[sn] == Registry::LIVE && !reachable.count((uint32_t)sn))
                        violation("LIFETIME", "%s: element serial %zu still holds a value but is no longer reachable (never destroyed); live=%ld reachable=%zu", when, sn, live, reachable.size());
                violation("LIFETIME", "%s: live=%ld reachable=%zu", when, live, reachable.size());
            }
            long shells = r.count(Registry::MOVED_FROM);
            if (shells) violation("LIFETIME", "%s: %ld moved-from element(s) were left undestroyed", when, shells);
        }
    }

    void run(const Case &c) {
        bool thorough = hget(c, 1, 0) != 0;
        maxLen = thorough ? 2000 : 40;
        int opno = 0;
        for (const Op &o : c.ops) {
            ++opno;
            if (o.k < 0 || o.k >= NK) { count_skipped(); continue; }
            int si = (unsigned)o.a % NSLOT; Slot &sl = s[si];
            char when[96]; snprintf(when, sizeof when, "after op %d (%s slot %d b=%d c=%d)", opno, kname[o.k], si, o.b, o.c);
            note("op %d: %s slot %d b=%d c=%d", opno, kname[o.k], si, o.b, o.c);
            // lengths: mostly small, sometimes up to maxLen
            size_t n = (o.c & 8) ? (size_t)((unsigned)(o.b * 37 + o.c) % (unsigned)(maxLen + 1)) : (size_t)((unsigned)o.b % 9);
            bool done = true;
            switch (o.k) {
            case CTOR_PTR_COPY: case CTOR_PTR_ADOPT: {
                if (sl.a) destroy(sl);
                Model m; for (size_t i = 0; i < n; ++i) m.push_back(nextVal++);
                if (o.k == CTOR_PTR_COPY) {
                    std::vector<T> src; src.reserve(n); for (size_t i = 0; i < n; ++i) src.push_back(Elem<T>::make(*m[i]));
                    { alloctrack::Scope t; sl.a = std::make_unique<A>(src.data(), n); }
                    if (Elem<T>::tracked) { label("class_type_from_pointer"); nt = true; }
                    if (n && sl.a->array() == src.data()) violation("CONTENT", "%s: Array(ptr, n) with copy=true adopted the caller's buffer", when);
                } else {
                    // adopt a malloc'ed block (copy = false): the Array owns and frees it
                    T *blk;
                    { alloctrack::Scope t; blk = static_cast<T *>(malloc((n ? n : 1) * sizeof(T))); }
                    for (size_t i = 0; i < n; ++i) new (&blk[i]) T(Elem<T>::make(*m[i]));
                    { alloctrack::Scope t; sl.a = std::make_unique<A>(blk, n, false); }
                    VF_CHECK(sl.a->array() == blk, "CONTENT", "%s: Array(ptr, n, false) did not adopt the block", when);
                    label("adopted_block");
                }
                sl.m = m;
                break;
            }
            case CTOR_IL: {
                if (sl.a) destroy(sl);
                size_t k = std::min<size_t>((unsigned)o.b % 9, 8);
                Model m; for (size_t i = 0; i < k; ++i) m.push_back(nextVal++);
                auto E = [&](size_t i) { return Elem<T>::make(*m[i]); };
                {
                alloctrack::Scope t;
                // c bit 2: the SAME initializer_list object is read twice (a helper that fills two arrays from one list parameter):
                // both arrays must hold exactly the listed values - the constructor may not consume the list
                auto from_list = [&](std::initializer_list<T> il) {
                    sl.a.reset(new A(il));
                    if ((o.c & 4) && k > 0) {
                        A second(il);
                        VF_CHECK(second.size() == k, "CONTENT", "%s: second Array built from the same initializer_list has size %zu, expected %zu", when, second.size(), k);
                        for (size_t i = 0; i < k && i < second.size(); ++i)
                            VF_CHECK(Elem<T>::val(second[i]) == *m[i], "CONTENT", "%s: second Array built from the same initializer_list holds %d at [%zu], the list says %d", when, Elem<T>::val(second[i]), i, *m[i]);
                        label("two_arrays_from_one_list");
                    }
                };
                switch (k) {
                case 0: sl.a.reset(new A(std::initializer_list<T>{})); break;
                case 1: if (o.c & 4) from_list({E(0)}); else sl.a.reset(new A{E(0)}); break;
                case 2: if (o.c & 4) from_list({E(0), E(1)}); else sl.a.reset(new A{E(0), E(1)}); break;
                case 3: if (o.c & 4) from_list({E(0), E(1), E(2)}); else sl.a.reset(new A{E(0), E(1), E(2)}); break;
                case 4: from_list({E(0), E(1), E(2), E(3)}); break;
                case 5: from_list({E(0), E(1), E(2), E(3), E(4)}); break;
                case 6: from_list({E(0), E(1), E(2), E(3), E(4), E(5)}); break;
                case 7: from_list({E(0), E(1), E(2), E(3), E(4), E(5), E(6)}); break;
                default: from_list({E(0), E(1), E(2), E(3), E(4), E(5), E(6), E(7)}); break;
                }
                }
                sl.m = m;
                break;
            }
            case CTOR_SIZE: {
                if (sl.a) destroy(sl);
                { alloctrack::Scope t; sl.a = std::make_unique<A>(n); }
                sl.m.assign(n, Elem<T>::tracked ? std::optional<int>(0) : std::nullopt);   // class types are default-constructed, ints left indeterminate
                break;
            }
            case CTOR_SIZE_VALUE: {
                if (sl.a) destroy(sl);
                int v = nextVal++;
                { T val = Elem<T>::make(v); alloctrack::Scope t; sl.a = std::make_unique<A>(n, val); }
                sl.m.assign(n, v);
                break;
            }
            case CTOR_DEFAULT: if (sl.a) destroy(sl); { alloctrack::Scope t; sl.a = std::make_unique<A>(); } sl.m.clear(); break;
            case COPY_CONSTRUCT: case MOVE_CONSTRUCT: {
                Slot &src = s[(unsigned)o.b % NSLOT];
                if (&src == &sl || !src.a || src.unspecified) { done = false; break; }
                if (sl.a) destroy(sl);
                if (o.k == COPY_CONSTRUCT) { { alloctrack::Scope t; sl.a = std::make_unique<A>(*src.a); } sl.m = src.m; label("copy"); }
                else { { alloctrack::Scope t; sl.a = std::make_unique<A>(std::move(*src.a)); } sl.m = src.m; src.unspecified = true; label("move"); }
                break;
            }
            case COPY_ASSIGN: case MOVE_ASSIGN: {
                Slot &src = s[(unsigned)o.b % NSLOT];
                if (!src.a || !sl.a || src.unspecified) { done = false; break; }
                bool self = &src == &sl;
                if (o.k == COPY_ASSIGN) { { alloctrack::Scope t; *sl.a = *src.a; } if (!self) { sl.m = src.m; sl.unspecified = false; label("copy"); } else label("self_assign"); }
                else { { alloctrack::Scope t; *sl.a = std::move(*src.a); } if (!self) { sl.m = src.m; sl.unspecified = false; src.unspecified = true; label("move"); } else label("self_move_assign"); }
                break;
            }
            case SWAP: {
                Slot &other = s[(unsigned)o.b % NSLOT];
                if (!other.a || !sl.a || other.unspecified || sl.unspecified) { done = false; break; }
                sl.a->swap(*other.a);
                if (&other != &sl) std::swap(sl.m, other.m);
                label("swap");
                break;
            }
            case RESIZE: case RESIZE_VALUE: {
                if (!sl.a || sl.unspecified) { done = false; break; }
                size_t old = sl.m.size();
                if (Elem<T>::tracked && n != old) { label(n > old ? "class_type_grow" : "class_type_shrink"); nt = true; }
                if (o.k == RESIZE) {
                    { alloctrack::Scope t; sl.a->resize(n); }
                    sl.m.resize(n, Elem<T>::tracked ? std::optional<int>(0) : std::nullopt);
                } else {
                    int v = nextVal++;
                    { T val = Elem<T>::make(v); alloctrack::Scope t; sl.a->resize(n, val); }   // the fill value never aliases the array
                    sl.m.resize(n, v);
                }
                if (n == 0) label("resize_to_zero");
                break;
            }
            case WRITE: {
                if (!sl.a || sl.unspecified || sl.m.empty()) { done = false; break; }
                size_t i = (unsigned)o.b % sl.m.size(); int v = nextVal++;
                switch ((unsigned)o.c % 4) {
                case 0: (*sl.a)[i] = Elem<T>::make(v); break;
                case 1: *(sl.a->begin() + (std::ptrdiff_t)i) = Elem<T>::make(v); break;
                case 2: i = 0; sl.a->front() = Elem<T>::make(v); break;
                default: i = sl.m.size() - 1; sl.a->back() = Elem<T>::make(v); break;
                }
                sl.m[i] = v;
                // a write to one array must not show through any other (deep copies): checked by check_all against every model
                for (int j = 0; j < NSLOT; ++j) if (&s[j] != &sl && s[j].a && !s[j].unspecified && s[j].m.size()) { label("write_next_to_copy"); nt = true; break; }
                break;
            }
            case FRONT_BACK: case ITERATE: done = sl.a && !sl.unspecified; break;   // compare() covers them after every op
            case DESTROY: if (!sl.a) { done = false; break; } destroy(sl); break;
            }
            if (done) count_ops(); else count_skipped();
            check_all(when);
        }
        for (int i = 0; i < NSLOT; ++i) if (s[i].a) destroy(s[i]);
        if (const alloctrack::Entry *e = alloctrack::first_live())
            violation("LEAK", "end of case: a block of %zu bytes allocated for/inside an Array was never freed (%ld such blocks)", e->n, alloctrack::live_blocks);
        if constexpr (Elem<T>::tracked) {
            Registry &r = Registry::get();
            long live = r.count(Registry::LIVE), shells = r.count(Registry::MOVED_FROM);
            if (live || shells) violation("LIFETIME", "end of case: %ld element(s) were never destroyed, %ld moved-from element(s) left behind", live, shells);
        }
        if (nt) nontrivial();
    }
};

} // namespace

void exec_case(const Case &c) {
    if ((unsigned)hget(c, 0, 0) % 3 == 0) { label("elem_int"); Runner<int> r; r.run(c); }
    else { label("elem_tracked"); Runner<Tracked> r; r.run(c); }
}

} // namespace vf
