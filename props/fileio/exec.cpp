// Executor group "fileio": C17 (c17.cpp) File round trips, C18 (c18.cpp) Path / DirectoryVisitor.
#include "../../engine/common/exec.h"
namespace vf {
const char *const exec_props = "C17 C18";
void run_c17(const Case &c);
void run_c18(const Case &c);
void exec_case(const Case &c) { if (c.prop == "C17") run_c17(c); else run_c18(c); }
} // namespace vf
