// Generators for C17 (contents, chunkings, open modes, read/seek sequences) and C18 (trees, path strings, visitor stacks).
#include "../../engine/pbt/gen.h"
using namespace vf;
namespace {
namespace c17 { enum K { WRITE = 0, SEEK, TELL, SIZE, READ_BUF, READ_ALL, READ_STR, REOPEN, W_SEEK, W_REOPEN }; }
namespace c18 { enum K { MKDIR = 0, MKFILE, STR_LAW, STR_ANY, V_PUSH_CTOR, V_PUSH_DEFAULT, V_SET, V_VISIT, V_RESTORE, V_POP, V_CHDIR, MKCHAIN }; }

// byte strings biased to NUL, 0xFF, CR, LF, 0x1A (CRLF pairs arise naturally)
rc::Gen<std::string> content(int maxLen) {
    auto byte = rc::gen::weightedOneOf<uint8_t>({{3, rc::gen::just<uint8_t>(0xFF)}, {2, rc::gen::just<uint8_t>(0)}, {3, rc::gen::just<uint8_t>('\r')}, {3, rc::gen::just<uint8_t>('\n')},
                                                 {1, rc::gen::just<uint8_t>(0x1A)}, {3, rc::gen::just<uint8_t>('a')}, {6, rc::gen::resize(100, rc::gen::arbitrary<uint8_t>())}});
    return rc::gen::map(rc::gen::scale(maxLen / 100.0, rc::gen::container<std::vector<uint8_t>>(byte)), [](const std::vector<uint8_t> &v) { return std::string(v.begin(), v.end()); });
}

Register r17("C17", [](Tier t) {
    using namespace c17;
    auto ops = genOps({{WRITE, 8, 3, 8191, 3}, {SEEK, 6, 2, 8191, 7}, {SIZE, 6, 0, 0, 0}, {TELL, 2, 0, 0, 0}, {READ_BUF, 6, 1, 4, 11}, {READ_ALL, 3, 0, 0, 0}, {READ_STR, 3, 0, 0, 0},
                       {REOPEN, 1, 0, 0, 0}, {W_SEEK, 3, 0, 8191, 0}, {W_REOPEN, 1, 0, 3, 0}}, 28);
    // h: write mode, pre-existing content selector, read mode, repeat factor (x256 KiB), error case selector (1: missing, 2: directory), bit0 flush | bit1 one File object for the whole history
    int bigMax = t == THOROUGH ? 128 : 16;
    auto normal = genHeader({{0, 3}, {0, 40}, {0, 1}, {0, 0}, {0, 0}, {0, 3}});
    auto large = genHeader({{0, 3}, {0, 40}, {0, 1}, {1, bigMax}, {0, 0}, {0, 3}});
    auto errs = genHeader({{0, 3}, {0, 40}, {0, 1}, {0, 0}, {1, 2}, {0, 1}});
    auto sched = rc::gen::just(std::vector<uint8_t>{});
    return rc::gen::weightedOneOf<Case>({{30, genCase("C17", normal, ops, sched, content(4096))}, {1, genCase("C17", large, ops, sched, content(600))},
                                         {2, genCase("C17", errs, rc::gen::just(std::vector<Op>{}), sched, rc::gen::just(std::string{}))}});
});
Register r18("C18", [](Tier t) {
    using namespace c18;
    auto tree = genOps({{MKDIR, 8, 63, 255, 255}, {MKFILE, 10, 63, 255, 255}, {MKCHAIN, 1, 63, 255, 255}}, t == THOROUGH ? 70 : 36);
    auto strs = genOps({{STR_LAW, 10, 255, 255, 255}, {STR_ANY, 4, 255, 255, 255}}, 30);
    auto vis = genOps({{MKDIR, 6, 63, 255, 255}, {V_PUSH_CTOR, 6, 63, 255, 0}, {V_PUSH_DEFAULT, 2, 0, 0, 0}, {V_SET, 3, 63, 255, 0}, {V_VISIT, 4, 0, 0, 0}, {V_RESTORE, 2, 0, 0, 0},
                       {V_POP, 5, 0, 0, 0}, {V_CHDIR, 3, 0, 255, 0}}, 30);
    auto H = genHeader({{t, t}});
    // raw (d, n) pairs as a blob "d\0n": segments of arbitrary bytes (no NUL) with separators sprinkled in
    auto rawbyte = rc::gen::weightedOneOf<uint8_t>({{4, rc::gen::just<uint8_t>('/')}, {2, rc::gen::just<uint8_t>('.')}, {1, rc::gen::just<uint8_t>(':')}, {1, rc::gen::just<uint8_t>(' ')},
                                                    {6, rc::gen::map(rng(1, 255), [](int x) { return (uint8_t)x; })}, {6, rc::gen::map(rng('a', 'e'), [](int x) { return (uint8_t)x; })}});
    auto part = [rawbyte](double sc) { return rc::gen::scale(sc, rc::gen::container<std::vector<uint8_t>>(rawbyte)); };
    auto blob = rc::gen::map(rc::gen::tuple(part(0.4), part(0.15)), [](const std::tuple<std::vector<uint8_t>, std::vector<uint8_t>> &t) {
        std::string s(std::get<0>(t).begin(), std::get<0>(t).end()); s.push_back('\0');
        for (uint8_t ch : std::get<1>(t)) if (ch != '/' && ch != '\\') s.push_back((char)ch);
        return s;
    });
    auto raw = genCase("C18", H, rc::gen::just(std::vector<Op>{}), rc::gen::just(std::vector<uint8_t>{}), blob);
    return rc::gen::weightedOneOf<Case>({{5, genCase("C18", H, tree)}, {3, genCase("C18", H, strs)}, {3, genCase("C18", H, vis)}, {2, raw}});
});
} // namespace
