// C17: File round-trips bytes exactly and reports sizes and errors truthfully.
// Oracle: in-memory byte model + position model; std::filesystem::file_size and an independent std::ifstream re-read.
#include "../../engine/common/exec.h"
#include "fsutil.h"

#include <tulz/Exception.h>
#include <tulz/File.h>

#include <filesystem>
#include <fstream>
#include <optional>

namespace fs = std::filesystem;
using namespace tulz;

namespace vf {
namespace {
enum K { WRITE = 0, SEEK, TELL, SIZE, READ_BUF, READ_ALL, READ_STR, REOPEN, W_SEEK, W_REOPEN, NK };
const char *kname[] = {"write", "seek", "tell", "size", "read(buf)", "read()", "readStr()", "reopen", "seek-while-writing", "reopen-for-writing"};

std::string hexs(const std::string &s, size_t at) {
    std::string o; char b[8];
    for (size_t i = at; i < s.size() && i < at + 8; ++i) { snprintf(b, sizeof b, "%02x ", (unsigned char)s[i]); o += b; }
    return o;
}
void same_bytes(const char *when, const char *what, const std::string &got, const std::string &want) {
    if (got == want) return;
    size_t i = 0; while (i < got.size() && i < want.size() && got[i] == want[i]) ++i;
    violation("ROUNDTRIP", "%s: %s returned %zu bytes, the file holds %zu; first difference at offset %zu (got %s| expected %s)", when, what, got.size(), want.size(), i,
              hexs(got, i).c_str(), hexs(want, i).c_str());
}
} // namespace

void run_c17(const Case &c) {
    TempDir tmp;
    const std::string path = tmp.path + "/data.bin";
    int wmode = (unsigned)hget(c, 0, 0) % 4;       // 0 Write, 1 WriteText, 2 Append, 3 AppendText
    int rmode = (unsigned)hget(c, 2, 0) % 2;       // 0 Read, 1 ReadText
    int errcase = (unsigned)hget(c, 4, 0) % 8;     // 1: missing file in a read mode, 2: directory in any mode
    static const File::Mode WM[] = {File::Mode::Write, File::Mode::WriteText, File::Mode::Append, File::Mode::AppendText};
    static const File::Mode RM[] = {File::Mode::Read, File::Mode::ReadText};
    static const char *wname[] = {"mode_write", "mode_write_text", "mode_append", "mode_append_text"};
    label(wname[wmode]); label(rmode ? "read_text" : "read_binary");

    if (errcase == 1) {
        label("error_missing_file");
        for (File::Mode m : RM) {
            bool ok = false;
            try { File f(path + ".missing", m); } catch (const Exception &e) { ok = e.type == Path::NotFound; if (!ok) violation("ERRORS", "opening a missing file for reading threw Exception type %d, expected NotFound", e.type); }
            if (!ok) violation("ERRORS", "opening a missing file for reading did not fail with NotFound");
            try { File f; f.open(Path(path + ".missing2"), m); violation("ERRORS", "open() of a missing file for reading did not fail"); } catch (const Exception &e) { if (e.type != Path::NotFound) violation("ERRORS", "open(): Exception type %d, expected NotFound", e.type); }
        }
        nontrivial();
        return;
    }
    if (errcase == 2) {
        label("error_directory");
        static const File::Mode ALL[] = {File::Mode::Read, File::Mode::ReadText, File::Mode::Write, File::Mode::WriteText, File::Mode::Append, File::Mode::AppendText};
        File::Mode m = ALL[(unsigned)hget(c, 1, 0) % 6];
        try { File f(tmp.path, m); violation("ERRORS", "opening a directory did not fail"); } catch (const Exception &e) { if (e.type != Path::NotFile) violation("ERRORS", "opening a directory threw Exception type %d, expected NotFile", e.type); }
        if (!fs::is_directory(tmp.path)) violation("ERRORS", "opening a directory damaged it");
        nontrivial();
        return;
    }

    // ---- content: the blob, optionally repeated to reach multi-megabyte sizes
    std::string content = c.blob;
    int rep = hget(c, 3, 0);
    if (rep > 0 && !content.empty()) {
        size_t target = (size_t)rep * 262144;   // rep * 256 KiB
        std::string big; big.reserve(target + content.size());
        while (big.size() < target) big += content;
        content.swap(big);
        label("large_content");
    }
    // pre-existing content (append extends it, write truncates it)
    std::string pre;
    size_t prelen = (unsigned)hget(c, 1, 0) % 5 == 0 ? 0 : std::min<size_t>(content.size(), (unsigned)hget(c, 1, 0) * 13 % 300);
    pre = content.substr(0, prelen);
    std::string rest = content.substr(prelen);
    if (prelen || (unsigned)hget(c, 1, 0) % 2) { std::ofstream o(path, std::ios::binary); o.write(pre.data(), (std::streamsize)pre.size()); label("preexisting_file"); }
    else pre.clear();

    // ---- write phase: split `rest` into chunks, one per WRITE op (the last chunk takes what is left)
    std::vector<Op> wops, rops;
    for (const Op &o : c.ops) { if (o.k == WRITE || o.k == W_SEEK || o.k == W_REOPEN) wops.push_back(o); else if (o.k > WRITE && o.k < W_SEEK) rops.push_back(o); else count_skipped(); }
    { size_t nw = 0; for (auto &o : wops) nw += o.k == WRITE; if (nw == 0) wops.clear(); }
    if (wops.empty()) wops.push_back(Op{WRITE, 3, 0, 0});
    const int wmode0 = wmode;
    std::string model = (wmode >= 2) ? pre : std::string();
    // one long-lived File object for the whole history (h[5] bit 1): it first reads what is there (size(), readStr() in a read
    // mode), is then re-opened for the write phase and re-opened again for the read phase - nothing learnt about an earlier
    // stream may survive open()
    const bool same_object = (hget(c, 5, 0) & 2) != 0;
    File fobj;
    if (same_object) {
        label("one_file_object");
        if (fs::exists(path)) {
            fobj.open(Path(path), RM[rmode]);
            if (fobj.size() != pre.size()) violation("SIZE", "before the write phase: size() = %zu, the file holds %zu bytes", fobj.size(), pre.size());
            if ((hget(c, 1, 0) & 4)) same_bytes("before the write phase", "readStr()", fobj.readStr(), pre);
            else same_bytes("before the write phase", "read()", [&] { Array<byte> a = fobj.read(); return std::string(reinterpret_cast<const char *>(a.array()), a.size()); }(), pre);
            label("one_file_object_read_before_write");
        }
    }
    {
        std::optional<File> wlocal;
        if (!same_object) wlocal.emplace(Path(path), WM[wmode]); else fobj.open(Path(path), WM[wmode]);
        File &f = same_object ? fobj : *wlocal;
        if (!f.isOpen()) violation("ROUNDTRIP", "File is not open after opening for writing");
        if (f.getMode() != WM[wmode]) violation("ROUNDTRIP", "getMode() differs from the mode the file was opened with");
        size_t off = 0;
        size_t wpos = model.size();          // position of the next write (write modes: may be moved back to patch earlier bytes)
        size_t lastWrite = 0; for (size_t i = 0; i < wops.size(); ++i) if (wops[i].k == WRITE) lastWrite = i;
        for (size_t i = 0; i < wops.size(); ++i) {
            const Op &o = wops[i];
            if (o.k == W_SEEK) {
                // "write the body, then patch the header": only meaningful in the non-append modes
                if (wmode >= 2 || model.empty()) { count_skipped(); continue; }
                size_t target = (size_t)((unsigned)o.b % (unsigned)(model.size() + 1));
                if (f.seek((long)target, File::Origin::Start) != 0) violation("POSITION", "seek(%zu) while writing failed", target);
                wpos = target; label("seek_while_writing");
                size_t sz = f.size();
                if (sz != model.size()) violation("SIZE", "while writing, after seeking back to %zu: size() = %zu, %zu bytes are in the file", target, sz, model.size());
                if ((size_t)f.tell() != wpos) violation("SIZE", "while writing: size() moved the position from %zu to %ld", wpos, f.tell());
                count_ops(); continue;
            }
            if (o.k == W_REOPEN) {
                // open() on an already open File closes the old stream first (flushing it); Write truncates, Append keeps
                int nm = (unsigned)o.b % 4;
                f.open(Path(path), WM[nm]);
                if (nm < 2) model.clear();
                wmode = nm; wpos = model.size(); label("reopen_while_writing");
                count_ops(); continue;
            }
            size_t remaining = rest.size() - off;
            size_t len = (i == lastWrite) ? remaining : std::min<size_t>(remaining, (size_t)((unsigned)o.b % 4097));
            std::string chunk = rest.substr(off, len);
            size_t wrote = 0, expect = 0, bytes = len;
            switch ((unsigned)o.a % 4) {
            case 0: wrote = f.write(chunk.data(), len); expect = len; break;
            case 1: { size_t es = (o.c & 1) ? 4 : 2; size_t n = len / es; bytes = n * es; chunk.resize(bytes); wrote = f.write(chunk.data(), n, es); expect = n; label("write_element_size"); break; }
            case 2: { Array<byte> arr(reinterpret_cast<byte *>(chunk.data()), len); wrote = f.write(arr); expect = len; break; }
            default: {
                // std::string overload (writes str.length() bytes, embedded NULs included)
                wrote = f.write(chunk); expect = len; break;
            }
            }
            if (wrote != expect) violation("ROUNDTRIP", "write #%zu returned %zu, expected the element count %zu", i, wrote, expect);
            if (wmode >= 2) { model += chunk; wpos = model.size(); }                    // append: always at the end
            else { if (wpos + bytes > model.size()) model.resize(wpos + bytes); model.replace(wpos, bytes, chunk); wpos += bytes; }
            off += bytes;
            note("write #%zu: overload %u, %zu bytes", i, (unsigned)o.a % 4, bytes);
            if (o.c & 2) {
                // size() is truthful while writing too, and leaves the position where it was
                long before = f.tell();
                size_t sz = f.size();
                if (sz != model.size()) violation("SIZE", "while writing (mode %d) after chunk #%zu: size() = %zu, %zu bytes are in the file", wmode, i, sz, model.size());
                if (f.tell() != before) violation("SIZE", "while writing: size() moved the position from %ld to %ld", before, f.tell());
                if (wmode < 2 && before != (long)wpos) violation("POSITION", "while writing: tell() = %ld, model position %zu", before, wpos);
                label("size_during_write");
            }
            count_ops();
        }
        if (wops.size() >= 2) label("several_chunks");
        if ((hget(c, 5, 0) & 1) && f.flush() != 0) violation("ROUNDTRIP", "flush() failed");
        f.close();
        if (f.isOpen()) violation("ROUNDTRIP", "isOpen() after close()");
    }
    // independent re-read
    {
        std::ifstream in(path, std::ios::binary);
        std::string disk((std::istreambuf_iterator<char>(in)), std::istreambuf_iterator<char>());
        same_bytes("after the write phase", wmode0 >= 2 ? "the file on disk (append must extend the existing content)" : "the file on disk (write must truncate)", disk, model);
        if (fs::file_size(path) != model.size()) violation("ROUNDTRIP", "file_size on disk is %ju, model %zu", (uintmax_t)fs::file_size(path), model.size());
    }

    // ---- read phase
    bool interesting = model.find('\xff') != std::string::npos || model.find("\r\n") != std::string::npos || model.size() > 4096;
    if (model.find('\xff') != std::string::npos) label("content_has_0xff");
    if (model.find("\r\n") != std::string::npos) label("content_has_crlf");
    if (model.find('\0') != std::string::npos) label("content_has_nul");
    if (model.find('\x1a') != std::string::npos) label("content_has_0x1a");
    if (model.size() > 4096) label("content_over_4096");
    if (model.empty()) label("content_empty");
    bool size_at_nonzero = false;
    std::optional<File> rlocal;
    if (!same_object) rlocal.emplace(path, RM[rmode]); else fobj.open(Path(path), RM[rmode]);
    File &f = same_object ? fobj : *rlocal;
    long pos = 0; const long len = (long)model.size();
    int opno = 0;
    for (const Op &o : rops) {
        ++opno;
        char when[80]; snprintf(when, sizeof when, "read op %d (%s a=%d b=%d c=%d, pos %ld)", opno, kname[o.k], o.a, o.b, o.c, pos);
        note("%s", when);
        switch (o.k) {
        case SEEK: {
            int origin = (unsigned)o.a % 3; long off, target;
            if (origin == 0) { off = (long)((unsigned)o.b % (unsigned)(len + 12)); if ((o.c & 7) == 7) off = -1 - (o.b % 3); target = off; }
            else if (origin == 1) { off = (long)((unsigned)o.b % (unsigned)(len + 12)) - pos - ((o.c & 7) == 7 ? 3 : 0); target = pos + off; }
            else { off = -(long)((unsigned)o.b % (unsigned)(len + 4)); if (o.c & 1) off = (long)(o.b % 5); target = len + off; }
            int rc = f.seek(off, origin == 0 ? File::Origin::Start : origin == 1 ? File::Origin::Current : File::Origin::End);
            if (target < 0) { if (rc == 0) violation("POSITION", "%s: seek to a negative position reported success", when); label("seek_negative_rejected"); }
            else { if (rc != 0) violation("POSITION", "%s: seek(%ld, origin %d) failed", when, off, origin); pos = target; }
            if (f.tell() != pos) violation("POSITION", "%s: tell() = %ld after seek, model %ld", when, f.tell(), pos);
            break;
        }
        case TELL: if (f.tell() != pos) violation("POSITION", "%s: tell() = %ld, model %ld", when, f.tell(), pos); break;
        case SIZE: {
            size_t s = f.size();
            if (s != model.size()) violation("SIZE", "%s: size() = %zu, the file holds %zu bytes", when, s, model.size());
            if (f.tell() != pos) violation("SIZE", "%s: size() moved the position from %ld to %ld", when, pos, f.tell());
            if (s != fs::file_size(path)) violation("SIZE", "%s: size() disagrees with std::filesystem::file_size", when);
            if (pos != 0) size_at_nonzero = true;
            break;
        }
        case READ_BUF: {
            size_t es = 1 + (unsigned)o.b % 5, cnt = (unsigned)o.c % 12 * ((o.a & 1) ? 100 : 1);
            std::string buf(es * cnt + 1, '\x5a');
            size_t got = f.read(buf.data(), es, cnt);
            long avail = pos < len ? len - pos : 0;
            size_t expect = std::min<size_t>(cnt, (size_t)avail / es);
            if (got != expect) violation("ROUNDTRIP", "%s: read(buf, %zu, %zu) returned %zu items, %ld bytes were available (expected %zu)", when, es, cnt, got, avail, expect);
            if (buf.compare(0, expect * es, model, (size_t)std::min(pos, len), expect * es) != 0) violation("ROUNDTRIP", "%s: read(buf) delivered bytes that differ from the file content at offset %ld", when, pos);
            if (buf[es * cnt] != '\x5a') violation("ROUNDTRIP", "%s: read(buf) wrote past the buffer", when);
            pos += (long)std::min<size_t>(es * cnt, (size_t)avail);
            if (f.tell() != pos) violation("POSITION", "%s: tell() = %ld after read(buf), model %ld", when, f.tell(), pos);
            break;
        }
        case READ_ALL: {
            Array<byte> a = f.read();
            same_bytes(when, "read()", std::string(reinterpret_cast<const char *>(a.array()), a.size()), model);
            pos = len; if (pos != 0) label("read_all_at_nonzero_position");
            break;
        }
        case READ_STR: {
            std::string s = f.readStr();
            same_bytes(when, "readStr()", s, model);
            pos = len;
            break;
        }
        case REOPEN: rmode = 1 - rmode; f.open(Path(path), RM[rmode]); pos = 0; if (f.getMode() != RM[rmode]) violation("ROUNDTRIP", "getMode() after reopen"); label("reopen_other_read_mode"); break;
        }
        count_ops();
    }
    // the whole content, in both read modes, whatever happened before
    same_bytes("final read()", "read()", [&] { Array<byte> a = f.read(); return std::string(reinterpret_cast<const char *>(a.array()), a.size()); }(), model);
    { File g(path, RM[1 - rmode]); same_bytes("final readStr() in the other read mode", "readStr()", g.readStr(), model); if (g.size() != model.size()) violation("SIZE", "size() = %zu in the other read mode, model %zu", g.size(), model.size()); }
    if (interesting && size_at_nonzero) nontrivial();
}

} // namespace vf
