// Per-case temporary directory; removed on every exit path through vf::cleanup_hook.
#pragma once
#include "../../engine/common/exec.h"
#include <filesystem>
#include <string>
#include <unistd.h>

namespace vf {
struct TempDir {
    std::string path;
    static std::string &current() { static std::string p; return p; }
    static std::string &origcwd() { static std::string p; return p; }
    TempDir() {
        const char *base = getenv("VF_TMPDIR");
        std::string tmpl = std::string(base && *base ? base : "/tmp") + "/tulzvf.XXXXXX";
        char *p = mkdtemp(tmpl.data());
        if (!p) internal_error("mkdtemp failed for %s", tmpl.c_str());
        path = p; current() = path; origcwd() = std::filesystem::current_path().string();
        cleanup_hook = [] {
            std::error_code ec;
            std::filesystem::current_path(origcwd(), ec);     // never remove the directory we are standing in
            std::filesystem::remove_all(current(), ec);
        };
    }
    ~TempDir() { if (cleanup_hook) { auto f = cleanup_hook; cleanup_hook = nullptr; f(); } }
};
} // namespace vf
