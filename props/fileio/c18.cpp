// C18: Path agrees with the filesystem; join/getPathName/getParentDirectory are mutually consistent;
//      DirectoryVisitor restores the previous working directory.
// Oracle: std::filesystem on a generated temporary tree (differential) + string laws + cwd model.
#include "../../engine/common/exec.h"
#include "fsutil.h"

#include <tulz/DirectoryVisitor.h>
#include <tulz/Exception.h>
#include <tulz/Path.h>

#include <algorithm>
#include <cstring>
#include <dirent.h>
#include <filesystem>
#include <fstream>
#include <map>
#include <memory>
#include <set>
#include <sys/resource.h>

namespace fs = std::filesystem;
using namespace tulz;

namespace vf {
namespace {

enum K { MKDIR = 0, MKFILE, STR_LAW, STR_ANY, V_PUSH_CTOR, V_PUSH_DEFAULT, V_SET, V_VISIT, V_RESTORE, V_POP, V_CHDIR, MKCHAIN, NK };

std::string gen_name(int a, int b) {
    static const char *fixed[] = {"a", "b.txt", ".hidden", "..rc", "...", "with space", "\xc3\xbc\xc3\xaf", "\xff\xfe", "back\\slash", "-dash", "x..y", "UPPER",
                                  "tab\tname", "..cache", ".a.", "~", "*", "name.", "\x01", "long_name_long_name_long_name_long_name_long_name_long_name_64+",
                                  "a:b", "x:", "9:45 standup.txt", ":", "C:", "-", "%s", "a\nb"};
    unsigned ua = (unsigned)a, ub = (unsigned)b;
    if (ua % 4 != 3) return fixed[ub % 28];
    std::string s; unsigned x = ub * 2654435761u + ua; size_t n = 1 + x % 8;
    for (size_t i = 0; i < n; ++i) { x = x * 1103515245u + 12345u; unsigned char ch = (unsigned char)(1 + (x >> 16) % 255); if (ch == '/') ch = '_'; s += (char)ch; }
    if (s == "." || s == "..") s += "x";
    return s;
}
std::string seg(int a, int b) { std::string s = gen_name(a, b); for (char &ch : s) if (ch == '\\') ch = '_'; return s; }   // separator-free in tulz's sense

std::string shown(const std::string &s) { std::string o; char b[8]; for (unsigned char ch : s) { if (ch >= 32 && ch < 127) o += (char)ch; else { snprintf(b, sizeof b, "\\x%02x", ch); o += b; } } return o; }

int open_fds() { int n = 0; if (DIR *d = opendir("/proc/self/fd")) { while (readdir(d)) ++n; closedir(d); } return n; }

struct Node { std::string path; bool dir; uintmax_t size; };

// expected directory totals, computed before the descriptor limit is tightened (a recursive_directory_iterator holds one
// descriptor per level, which the tight limit would deny the ORACLE on deep trees)
std::map<std::string, uintmax_t> g_totals;

void compare_node(const Node &n, const char *how, const std::string &p) {
    Path tp(p);
    fs::path fp(n.path);
    bool ex = fs::exists(fp), isf = fs::is_regular_file(fp), isd = fs::is_directory(fp);
    if (tp.exists() != ex) violation("FS", "%s %s: exists() = %d, filesystem says %d", how, shown(p).c_str(), (int)tp.exists(), (int)ex);
    if (tp.isFile() != isf) violation("FS", "%s %s: isFile() = %d, filesystem says %d", how, shown(p).c_str(), (int)tp.isFile(), (int)isf);
    if (tp.isDirectory() != isd) violation("FS", "%s %s: isDirectory() = %d, filesystem says %d", how, shown(p).c_str(), (int)tp.isDirectory(), (int)isd);
    if (isf) {
        if (tp.size() != fs::file_size(fp)) violation("FS", "%s %s: size() = %zu, file_size = %ju", how, shown(p).c_str(), tp.size(), (uintmax_t)fs::file_size(fp));
        try { tp.listChildren(); violation("FS", "%s %s: listChildren() on a regular file did not fail", how, shown(p).c_str()); }
        catch (const Exception &e) { if (e.type != Path::NotDirectory) violation("FS", "%s %s: listChildren() on a file threw type %d, expected NotDirectory", how, shown(p).c_str(), e.type); }
    }
    if (isd) {
        uintmax_t sum = 0;
        if (auto it = g_totals.find(n.path); it != g_totals.end()) sum = it->second;
        else for (auto &e : fs::recursive_directory_iterator(fp)) if (e.is_regular_file()) sum += e.file_size();
        size_t got = tp.size();
        if (got != sum) violation("FS", "%s %s: size() of the directory = %zu, total size of the regular files beneath it = %ju", how, shown(p).c_str(), got, sum);
        std::multiset<std::string> want, have;
        for (auto &e : fs::directory_iterator(fp)) want.insert(e.path().filename().string());
        for (const Path &c : tp.listChildren()) have.insert(c.toString());
        if (want != have) {
            for (auto &w : want) if (have.count(w) != want.count(w)) violation("FS", "%s %s: listChildren() returns entry '%s' %zu times, the directory holds it %zu times", how, shown(p).c_str(), shown(w).c_str(), have.count(w), want.count(w));
            for (auto &h : have) if (!want.count(h)) violation("FS", "%s %s: listChildren() returns '%s' which is not an entry of the directory", how, shown(p).c_str(), shown(h).c_str());
        }
    }
}
void compare_missing(const std::string &p) {
    Path tp(p);
    if (tp.exists() || tp.isFile() || tp.isDirectory()) violation("FS", "%s does not exist but exists/isFile/isDirectory = %d/%d/%d", shown(p).c_str(), (int)tp.exists(), (int)tp.isFile(), (int)tp.isDirectory());
    try { tp.size(); violation("FS", "size() of the missing path %s did not fail", shown(p).c_str()); } catch (const Exception &e) { if (e.type != Path::NotFound) violation("FS", "size() of a missing path threw type %d, expected NotFound", e.type); }
    try { tp.listChildren(); violation("FS", "listChildren() of the missing path %s did not fail", shown(p).c_str()); } catch (const Exception &e) { if (e.type != Path::NotFound) violation("FS", "listChildren() of a missing path threw type %d, expected NotFound", e.type); }
}

} // namespace

void run_c18(const Case &c) {
    TempDir tmp;
    const std::string root = tmp.path;
    bool thorough = hget(c, 0, 0) != 0;
    std::vector<Node> nodes; nodes.push_back(Node{root, true, 0});
    std::vector<size_t> dirs{0};
    std::vector<int> depth{0};
    static const size_t sizes[] = {0, 0, 1, 100, 4096, 4097, 65536, 0, 7};
    bool has_empty_dir = false, has_nonascii = false, str_nt = false;
    int maxdepth = 0;
    bool chain_done = false;

    // ---- DirectoryVisitor stack (strictly nested use)
    struct V { std::unique_ptr<DirectoryVisitor> v; std::string dir; bool visited = false; std::string before; };
    bool chdir_used = false;
    bool revisited = false;   // some visitor visited twice: "the previous directory" is then the one before its LAST visit, the chain to cwd0 is broken by design
    std::vector<V> vs;
    const std::string cwd0 = fs::current_path().string();
    auto cwd = [] { return fs::current_path().string(); };
    auto vdir = [&](int a, int b) -> std::string {
        switch ((unsigned)a % 7) {
        case 6: {   // a directory whose absolute path is longer than 255 bytes (created on demand)
            std::string d = root;
            for (int i = 0; i < 5; ++i) d += "/deep_directory_name_deep_directory_name_deep_directory_name_" + std::to_string(i);
            std::error_code ec; fs::create_directories(d, ec);
            if (!ec && nodes.size() < 200 && !fs::exists(root + "/.deep_registered")) {
                std::string p = root;
                for (int i = 0; i < 5; ++i) { p += "/deep_directory_name_deep_directory_name_deep_directory_name_" + std::to_string(i); nodes.push_back(Node{p, true, 0}); dirs.push_back(nodes.size() - 1); depth.push_back(9); }
                std::ofstream(root + "/.deep_registered").put('x'); nodes.push_back(Node{root + "/.deep_registered", false, 1});
            }
            label("deep_directory");
            return d;
        }
        case 0: return "";
        case 1: return root + "/does-not-exist";
        case 2: return nodes[dirs[(unsigned)b % dirs.size()]].path;
        case 3: return ".";
        case 4: return "..";
        default: { const std::string &d = nodes[dirs[(unsigned)b % dirs.size()]].path; std::error_code ec; auto rel = fs::relative(d, fs::current_path(), ec); return ec ? d : rel.string(); }
        }
    };
    auto do_visit = [&](V &x, bool viaCtor, const std::string &d) {
        std::string before = cwd();
        std::string expect = before;
        if (!d.empty()) { std::error_code ec; fs::path t = fs::weakly_canonical(fs::path(before) / d, ec); if (!ec && fs::is_directory(t)) expect = t.string(); }
        if (viaCtor) x.v = std::make_unique<DirectoryVisitor>(Path(d)); else x.v->visit();
        if (!d.empty()) { if (x.visited) { revisited = true; label("visited_twice"); } x.visited = true; x.before = before; label("visit_effective"); }
        if (cwd() != expect) violation("VISITOR", "after visiting '%s' from %s the working directory is %s, expected %s", shown(d).c_str(), before.c_str(), cwd().c_str(), expect.c_str());
    };

    // raw strings (libFuzzer, or a blob in a generated case): bytes up to the first 0x00 are d, the rest is n
    if (!c.blob.empty()) {
        size_t z = c.blob.find('\0');
        std::string d = c.blob.substr(0, z), n = z == std::string::npos ? std::string() : c.blob.substr(z + 1);
        n = n.substr(0, n.find('\0')); d = d.substr(0, 300); n = n.substr(0, 300);
        char *ed = static_cast<char *>(malloc(d.size() + 1)); memcpy(ed, d.c_str(), d.size() + 1);
        char *en = static_cast<char *>(malloc(n.size() + 1)); memcpy(en, n.c_str(), n.size() + 1);
        { Path p{std::string(ed)}; (void)p.getPathName(); (void)p.getParentDirectory(); (void)p.isAbsolute(); (void)Path::join(std::string(ed), std::string(en)); (void)Path::join(Path(std::string(en)), p); }
        free(ed); free(en);
        bool sepfree = !n.empty() && n.find('/') == std::string::npos && n.find('\\') == std::string::npos;
        bool dok = !d.empty() && d.find('\\') == std::string::npos;
        if (sepfree && dok) {
            std::string j = Path::join(d, n);
            if (Path(j).getPathName() != n) violation("STRING", "getPathName(join('%s','%s')) = '%s'", shown(d).c_str(), shown(n).c_str(), shown(Path(j).getPathName()).c_str());
            std::string want = d; if (want.back() == '/') want.pop_back();
            if (Path(j).getParentDirectory().toString() != want) violation("STRING", "getParentDirectory(join('%s','%s')) = '%s', expected '%s'", shown(d).c_str(), shown(n).c_str(), shown(Path(j).getParentDirectory().toString()).c_str(), shown(want).c_str());
            std::string abs = "/" + n;
            if (Path::join(d, abs) != abs) violation("STRING", "join('%s','%s') != the absolute operand", shown(d).c_str(), shown(abs).c_str());
            if (Path::join(std::string(), n) != n) violation("STRING", "join('', n) != n");
            label("raw_string_law"); str_nt = true;
        }
    }
    int opno = 0;
    for (const Op &o : c.ops) {
        ++opno;
        if (o.k < 0 || o.k >= NK) { count_skipped(); continue; }
        bool done = true;
        switch (o.k) {
        case MKDIR: case MKFILE: {
            if (nodes.size() >= (thorough ? 80u : 40u)) { done = false; break; }
            size_t pi = (unsigned)o.a % dirs.size(); size_t parent = dirs[pi];
            if (depth[pi] >= 4 && o.k == MKDIR) { done = false; break; }
            std::string name = gen_name(o.b, o.c);
            std::string p = nodes[parent].path + "/" + name;
            std::error_code ec;
            if (fs::exists(p, ec) || ec) { done = false; break; }
            if (o.k == MKDIR) {
                if (!fs::create_directory(p, ec) || ec) { done = false; break; }
                nodes.push_back(Node{p, true, 0}); dirs.push_back(nodes.size() - 1); depth.push_back(depth[pi] + 1);
                maxdepth = std::max(maxdepth, depth[pi] + 1);
            } else {
                size_t sz = sizes[(unsigned)o.c % 9];
                if (thorough && (o.c & 64)) sz = 1u << 21;
                if ((o.c & 0xB0) == 0xB0) {
                    // a SPARSE file of 1 GiB, 2 GiB - 1 or 3 GiB (no data blocks): totals beyond 2^31 / 2^32 cost nothing
                    static const uintmax_t huge[3] = {1ull << 30, (1ull << 31) - 1, 3ull << 30};
                    uintmax_t hs = huge[(unsigned)o.b % 3];
                    { std::ofstream f0(p, std::ios::binary); if (!f0) { done = false; break; } }
                    std::error_code ec2; fs::resize_file(p, hs, ec2);
                    if (ec2) { fs::remove(p, ec2); done = false; break; }
                    nodes.push_back(Node{p, false, hs}); label("sparse_gigabyte_file");
                    for (unsigned char ch : name) if (ch >= 0x80) has_nonascii = true;
                    break;
                }
                std::ofstream f(p, std::ios::binary);
                if (!f) { done = false; break; }
                std::string blk(std::min<size_t>(sz, 65536), (char)('A' + o.b % 26));
                for (size_t w = 0; w < sz; w += blk.size()) f.write(blk.data(), (std::streamsize)std::min(blk.size(), sz - w));
                f.close();
                nodes.push_back(Node{p, false, sz});
                if (sz == 0) label("empty_file");
            }
            for (unsigned char ch : name) if (ch >= 0x80) has_nonascii = true;
            note("op %d: %s %s", opno, o.k == MKDIR ? "mkdir" : "mkfile", shown(p).c_str());
            break;
        }
        case MKCHAIN: {
            // "any depth": one chain of 28..50 (thorough ..67) nested directories with a small file on some levels. Path needs O(1)
            // descriptors whatever the depth; the comparison below runs under a limit of (open + 24)
            if (chain_done || (o.c & 0xC0) != 0) { done = false; break; }
            size_t pi = (unsigned)o.a % dirs.size();
            if (depth[pi] > 4) { done = false; break; }
            int L = 28 + (int)((unsigned)o.b % (thorough ? 40u : 23u));
            std::string p = nodes[dirs[pi]].path; int dd = depth[pi];
            unsigned every = 1 + (unsigned)o.c % 5;
            for (int i = 0; i < L; ++i) {
                p += "/c"; std::error_code ec;
                if (fs::exists(p, ec) || ec || !fs::create_directory(p, ec) || ec) break;
                nodes.push_back(Node{p, true, 0}); dirs.push_back(nodes.size() - 1); depth.push_back(++dd); maxdepth = std::max(maxdepth, dd);
                if ((unsigned)i % every == 0 || i == L - 1) { std::ofstream f(p + "/f", std::ios::binary); f.write("7 bytes", 7); f.close(); nodes.push_back(Node{p + "/f", false, 7}); }
            }
            chain_done = true; label("deep_chain"); label_n("chain_depth", (long)dd);
            break;
        }
        case STR_LAW: {
            // d: non-empty directory string from segments and separators; n: non-empty separator-free name
            std::string d;
            int parts = 1 + (unsigned)o.a % 3;
            if (o.a & 8) d = "/";
            for (int i = 0; i < parts; ++i) { d += seg(o.b + i, o.c + i * 7); if (i + 1 < parts) d += "/"; }
            int trail = ((unsigned)o.a >> 4) % 3; for (int i = 0; i < trail; ++i) d += "/";
            if ((o.a & 0x80) && (o.b & 1)) d = "/";
            std::string n = seg(o.c, o.b + 3);
            std::string j = Path::join(d, n);
            note("op %d: law d='%s' n='%s' join='%s'", opno, shown(d).c_str(), shown(n).c_str(), shown(j).c_str());
            if (Path(j).getPathName() != n) violation("STRING", "getPathName(join('%s','%s')) = '%s', expected '%s'", shown(d).c_str(), shown(n).c_str(), shown(Path(j).getPathName()).c_str(), shown(n).c_str());
            std::string want = d; if (!want.empty() && want.back() == '/') want.pop_back();
            std::string got = Path(j).getParentDirectory().toString();
            if (got != want) violation("STRING", "getParentDirectory(join('%s','%s')) = '%s', expected '%s' (d without one trailing separator)", shown(d).c_str(), shown(n).c_str(), shown(got).c_str(), shown(want).c_str());
            if (Path::join(Path(d), Path(n)).toString() != j) violation("STRING", "join(Path,Path) differs from join(string,string)");
            std::string abs = "/" + n;
            if (Path::join(d, abs) != abs) violation("STRING", "join('%s','%s') = '%s', joining an absolute path must yield that path", shown(d).c_str(), shown(abs).c_str(), shown(Path::join(d, abs)).c_str());
            if (Path::join(std::string(), n) != n) violation("STRING", "join('', '%s') = '%s'", shown(n).c_str(), shown(Path::join(std::string(), n)).c_str());
            if (Path::join(d, n, n) != Path::join(Path::join(d, n), n)) violation("STRING", "variadic join is not a left fold");
            if (Path(abs).isAbsolute() != true || Path(n).isAbsolute() != false) violation("STRING", "isAbsolute wrong for '%s'/'%s'", shown(abs).c_str(), shown(n).c_str());
            if (trail || (o.a & 8)) str_nt = true;
            label("string_law");
            break;
        }
        case STR_ANY: {
            // totality: no function crashes or reads out of bounds on any string (ASan decides)
            static const char *odd[] = {"", "/", "//", "\\", "a", "a/", "/a", "a//", "///", "a\\", "\\\\", ".", "..", "a/b/", "/a/b//"};
            std::string s = (o.a & 1) ? std::string(odd[(unsigned)o.b % 15]) : gen_name(o.b, o.c) + ((o.c & 1) ? "/" : "") + ((o.c & 2) ? gen_name(o.c, o.b) : "");
            char *exact = static_cast<char *>(malloc(s.size() + 1)); memcpy(exact, s.data(), s.size() + 1);
            { Path p{std::string(exact)}; (void)p.getPathName(); (void)p.getParentDirectory(); (void)p.isAbsolute(); (void)Path::join(p, p); (void)Path::join(std::string(exact), std::string()); (void)p.toString(); }
            free(exact);
            label("string_any");
            break;
        }
        case V_PUSH_CTOR: { if (vs.size() >= 4) { done = false; break; } vs.emplace_back(); vs.back().dir = vdir(o.a, o.b); do_visit(vs.back(), true, vs.back().dir); if (vs.back().v->get().toString() != vs.back().dir) violation("VISITOR", "get() differs from the directory given"); break; }
        case V_PUSH_DEFAULT: { if (vs.size() >= 4) { done = false; break; } vs.emplace_back(); vs.back().v = std::make_unique<DirectoryVisitor>(); break; }
        case V_SET: { if (vs.empty()) { done = false; break; } vs.back().dir = vdir(o.a, o.b); vs.back().v->set(Path(vs.back().dir)); break; }
        case V_VISIT: { if (vs.empty()) { done = false; break; } do_visit(vs.back(), false, vs.back().dir); break; }
        case V_CHDIR: {
            // the working directory also changes by other means between the uses of a long-lived visitor
            std::string d = nodes[dirs[(unsigned)o.b % dirs.size()]].path;
            std::error_code ec; fs::current_path(d, ec);
            if (!ec) { chdir_used = true; label("cwd_changed_by_other_means"); } else done = false;
            break;
        }
        case V_RESTORE: case V_POP: {
            if (vs.empty()) { done = false; break; }
            V &x = vs.back();
            std::string before = cwd();
            std::string expect = x.visited ? x.before : before;
            if (o.k == V_RESTORE) x.v->restore(); else x.v.reset();
            if (cwd() != expect)
                violation("VISITOR", "%s: working directory is %s, expected %s (%s)", o.k == V_POP ? "after the visitor was destroyed" : "after restore()", cwd().c_str(), expect.c_str(),
                          x.visited ? "the directory in effect immediately before its last effective visit()" : "unchanged: it never visited");
            if (x.visited) label(o.k == V_POP ? "visitor_destroyed_after_visit" : "visitor_restore");
            if (o.k == V_POP) vs.pop_back();
            break;
        }
        }
        if (done) count_ops(); else count_skipped();
    }
    while (!vs.empty()) {
        V &x = vs.back(); std::string before = cwd(); std::string expect = x.visited ? x.before : before;
        x.v.reset();
        if (cwd() != expect) violation("VISITOR", "after the visitor was destroyed the working directory is %s, expected %s", cwd().c_str(), expect.c_str());
        vs.pop_back();
    }
    if (!revisited && !chdir_used && cwd() != cwd0) violation("VISITOR", "after all visitors were destroyed (in LIFO order) the working directory is %s, it was %s", cwd().c_str(), cwd0.c_str());

    // ---- filesystem differential over every node, several passes under a tight descriptor limit
    for (size_t di : dirs) { bool any = false; for (auto &e : fs::directory_iterator(nodes[di].path)) { (void)e; any = true; break; } if (!any && di != 0) has_empty_dir = true; }
    g_totals.clear();
    for (size_t di : dirs) { uintmax_t sum = 0; for (auto &e : fs::recursive_directory_iterator(nodes[di].path)) if (e.is_regular_file()) sum += e.file_size(); g_totals[nodes[di].path] = sum; }
    int fd0 = open_fds();
    struct rlimit rl; getrlimit(RLIMIT_NOFILE, &rl); struct rlimit tight = rl; tight.rlim_cur = std::min<rlim_t>(rl.rlim_cur, (rlim_t)fd0 + 24); setrlimit(RLIMIT_NOFILE, &tight);
    for (int pass = 0; pass < 3; ++pass) {
        for (const Node &n : nodes) compare_node(n, "absolute path", n.path);
        compare_missing(root + "/no-such-entry"); compare_missing(root + "/no-such-dir/child");
        if (nodes.size() > 1 && !nodes[1].dir) compare_missing(nodes[1].path + "/below-a-file");
        // relative paths, with the tree root as working directory
        fs::current_path(root);
        for (const Node &n : nodes) { std::string rel = n.path == root ? "." : n.path.substr(root.size() + 1); compare_node(n, "relative path", rel); if (n.dir && pass == 0) compare_node(n, "path with trailing separator", n.path + "/"); }
        fs::current_path(cwd0);
    }
    (void)revisited;
    setrlimit(RLIMIT_NOFILE, &rl);
    int fd1 = open_fds();
    if (fd1 > fd0) violation("FD_LEAK", "%d file descriptors were left open by Path queries on this tree (%d before, %d after): repeated queries exhaust the descriptor table, after which exists/isFile/size disagree with the filesystem", fd1 - fd0, fd0, fd1);

    label_n("nodes", (long)nodes.size());
    if (has_empty_dir) label("empty_directory"); if (has_nonascii) label("non_ascii_name");
    if (maxdepth >= 2) label("two_levels");
    if ((maxdepth >= 2 && has_empty_dir && has_nonascii) || str_nt) nontrivial();
}

} // namespace vf
