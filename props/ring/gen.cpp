// Generators for C04 / C09: operation histories over a pool of 4 ring buffers.
#include "../../engine/pbt/gen.h"
using namespace vf;

namespace {
// kinds must match props/ring/exec.cpp
enum K { CONSTRUCT = 0, CONSTRUCT_IL, PUSH_BACK, PUSH_FRONT, EMPLACE_BACK, EMPLACE_FRONT, POP_BACK, POP_FRONT, FRONT_BACK,
         INDEX_WRITE, ITERATE, RESIZE, COPY_CONSTRUCT, COPY_ASSIGN, MOVE_CONSTRUCT, MOVE_ASSIGN, EQUALS, DESTROY, CONST_ACCESS, ROTATE, FILL };

std::vector<KindSpec> kinds(bool c09) {
    const int A = 3, B = 63, C = 15;
    return {
        {PUSH_BACK, 12, A, B, C}, {PUSH_FRONT, 10, A, B, C}, {EMPLACE_BACK, 6, A, B, C}, {EMPLACE_FRONT, 6, A, B, C},
        {POP_BACK, 7, A, B, C}, {POP_FRONT, 9, A, B, C}, {RESIZE, c09 ? 14 : 10, A, B, C}, {ROTATE, 5, A, B, C}, {FILL, 3, A, B, C},
        {CONSTRUCT, 4, A, B, C}, {CONSTRUCT_IL, 3, A, B, C}, {INDEX_WRITE, 3, A, B, C}, {ITERATE, c09 ? 1 : 3, A, B, C},
        {COPY_CONSTRUCT, 3, A, B, C}, {COPY_ASSIGN, c09 ? 8 : 4, A, B, C}, {MOVE_CONSTRUCT, 2, A, B, C}, {MOVE_ASSIGN, 3, A, B, C},
        {EQUALS, c09 ? 1 : 3, A, B, C}, {DESTROY, 3, A, B, C}, {CONST_ACCESS, c09 ? 1 : 2, A, B, C}, {FRONT_BACK, 1, A, B, C}};
}

Register r04("C04", [](Tier t) {
    // h[0] element type (0 int, 1 POD struct, 2 Tracked), h[1] tier (bounds for capacities)
    return genCase("C04", genHeader({{0, 2}, {t, t}}), genOps(kinds(false), t == THOROUGH ? 400 : 120));
});
Register r09("C09", [](Tier t) {
    return genCase("C09", genHeader({{2, 2}, {t, t}}), genOps(kinds(true), t == THOROUGH ? 400 : 120));
});
} // namespace
