// Executor for C04 (RingBuffer is a bounded deque) and C09 (RingBuffer element lifetimes).
// Oracle: std::deque<int> + capacity per buffer (reference model), compared after EVERY op through the
// public API only; for Tracked elements additionally the lifetime registry invariants (tracked.h).
#include "../../engine/common/exec.h"
#include "../../engine/common/tracked.h"
#include "../../engine/common/alloctrack.h"

#include <tulz/container/RingBuffer.h>

#include <deque>
#include <memory>
#include <set>

namespace vf {
const char *const exec_props = "C04 C09";

namespace {

struct Pod { int v; char pad[12]; double d; };

template <class T> struct Elem;
template <> struct Elem<int> { static int make(int v) { return v; } static int val(const int &x) { return x; } static constexpr bool tracked = false; };
template <> struct Elem<Pod> {
    static Pod make(int v) { Pod p{}; p.v = v; memset(p.pad, v & 0xff, sizeof p.pad); p.d = v * 0.5; return p; }
    static int val(const Pod &p) { if (p.d != p.v * 0.5 || (unsigned char)p.pad[11] != (unsigned char)(p.v & 0xff)) violation("CONTENT", "POD element torn: v=%d d=%f", p.v, p.d); return p.v; }
    static constexpr bool tracked = false;
};
template <> struct Elem<Tracked> { static Tracked make(int v) { return Tracked(v); } static int val(const Tracked &t) { return t.value; } static constexpr bool tracked = true; };
inline bool operator==(const Pod &a, const Pod &b) { return a.v == b.v; }

enum K { CONSTRUCT = 0, CONSTRUCT_IL, PUSH_BACK, PUSH_FRONT, EMPLACE_BACK, EMPLACE_FRONT, POP_BACK, POP_FRONT, FRONT_BACK,
         INDEX_WRITE, ITERATE, RESIZE, COPY_CONSTRUCT, COPY_ASSIGN, MOVE_CONSTRUCT, MOVE_ASSIGN, EQUALS, DESTROY, CONST_ACCESS, ROTATE, FILL, NKINDS };
const char *kname[] = {"construct", "construct_il", "push_back", "push_front", "emplace_back", "emplace_front", "pop_back", "pop_front", "front_back",
                       "index_write", "iterate", "resize", "copy_construct", "copy_assign", "move_construct", "move_assign", "equals", "destroy", "const_access", "rotate", "fill"};

struct Model {
    std::deque<int> v;
    size_t cap = 0;
    bool ow = false;
    bool unspecified = false;   // moved-from: only destroyed or assigned to
    // bookkeeping for the non-triviality rule only (mirrors the documented layout, never compared)
    size_t head = 0; bool overwritten = false;
    bool wrapped() const { return !v.empty() && head + v.size() > cap; }
    bool offset() const { return head != 0; }
};

template <class T> struct Runner {
    using B0 = tulz::RingBuffer<T, false>;
    using B1 = tulz::RingBuffer<T, true>;
    static constexpr int NSLOT = 4;
    struct Slot { std::unique_ptr<B0> b0; std::unique_ptr<B1> b1; Model m; bool used() const { return b0 || b1; } };
    Slot s[NSLOT];
    int maxCap, maxResize;
    bool c09;
    int nextVal = 1;

    // every call into tulz runs under an allocation-accounting scope
    template <class F> auto call(Slot &sl, F f) { alloctrack::Scope track; return sl.b0 ? f(*sl.b0) : f(*sl.b1); }
    // read-only access for the comparison pass (harness containers allocate there, tulz does not)
    template <class F> auto with(Slot &sl, F f) { return sl.b0 ? f(*sl.b0) : f(*sl.b1); }

    void destroy(Slot &sl) { { alloctrack::Scope track; sl.b0.reset(); sl.b1.reset(); } sl.m = Model{}; }

    void construct(Slot &sl, size_t cap, bool ow) {
        { alloctrack::Scope track; if (ow) sl.b1 = std::make_unique<B1>(cap); else sl.b0 = std::make_unique<B0>(cap); }
        sl.m = Model{}; sl.m.cap = cap; sl.m.ow = ow;
    }
    // capacities: mostly small (every layout is reachable quickly), sometimes large (thresholds such as 16, 32, 64, 86 slots
    // or 1 KiB of storage only exist there)
    size_t decode_cap(int b, int c) const {
        static const size_t big[12] = {16, 17, 24, 31, 32, 33, 40, 64, 65, 86, 100, 130};
        if ((c & 12) == 12) return big[(unsigned)b % 12];
        return 1 + (size_t)((unsigned)b % (unsigned)maxCap);
    }
    void ensure(Slot &sl, const Op &o) {
        if (sl.used()) return;
        construct(sl, decode_cap(o.b * 7 + o.c, o.c), (o.c >> 1) & 1);
        label("implicit_construct");
    }

    // ---- oracle: full comparison through the public API
    template <class B> void compare(const char *when, int idx, B &b, const Model &m) {
        if (m.unspecified) {
            // moved-from: any valid state is acceptable; its elements still count as reachable
            if constexpr (Elem<T>::tracked) for (size_t i = 0; i < b.size(); ++i) reach(b[i], when);
            return;
        }
        VF_CHECK(b.size() == m.v.size(), "CONTENT", "%s: buffer %d size() = %zu, model %zu", when, idx, (size_t)b.size(), m.v.size());
        VF_CHECK(b.capacity() == m.cap, "CONTENT", "%s: buffer %d capacity() = %zu, model %zu", when, idx, (size_t)b.capacity(), m.cap);
        VF_CHECK(b.empty() == m.v.empty(), "CONTENT", "%s: buffer %d empty() = %d", when, idx, (int)b.empty());
        VF_CHECK(b.full() == (m.v.size() == m.cap), "CONTENT", "%s: buffer %d full() = %d, model size %zu cap %zu", when, idx, (int)b.full(), m.v.size(), m.cap);
        for (size_t i = 0; i < m.v.size(); ++i) {
            if constexpr (Elem<T>::tracked) reach(b[i], when);
            int got = Elem<T>::val(b[i]);
            VF_CHECK(got == m.v[i], "CONTENT", "%s: buffer %d [%zu] = %d, model %d (size %zu cap %zu)", when, idx, i, got, m.v[i], m.v.size(), m.cap);
        }
        size_t n = 0;
        for (auto it = b.begin(); it != b.end(); ++it, ++n) {
            VF_CHECK(n < m.v.size(), "CONTENT", "%s: buffer %d iteration yields more than %zu elements", when, idx, m.v.size());
            VF_CHECK(Elem<T>::val(*it) == m.v[n], "CONTENT", "%s: buffer %d iteration element %zu = %d, model %d", when, idx, n, Elem<T>::val(*it), m.v[n]);
        }
        VF_CHECK(n == m.v.size(), "CONTENT", "%s: buffer %d iteration yields %zu elements, model %zu", when, idx, n, m.v.size());
        if (!m.v.empty()) {
            VF_CHECK(Elem<T>::val(b.front()) == m.v.front(), "CONTENT", "%s: buffer %d front() = %d, model %d", when, idx, Elem<T>::val(b.front()), m.v.front());
            VF_CHECK(Elem<T>::val(b.back()) == m.v.back(), "CONTENT", "%s: buffer %d back() = %d, model %d", when, idx, Elem<T>::val(b.back()), m.v.back());
            VF_CHECK(&b.front() == &b[0] && &b.back() == &b[m.v.size() - 1], "CONTENT", "%s: buffer %d front()/back() do not refer to the first/last element", when, idx);
        }
    }

    std::set<uint32_t> reachable;
    void reach(const T &t, const char *when) {
        if constexpr (Elem<T>::tracked) {
            check_reachable(t, when);
            if (!reachable.insert(t.serial).second) violation("LIFETIME", "%s: element serial %u is reachable twice (duplicated by bitwise copy)", when, t.serial);
        }
    }

    void check_all(const char *when) {
        reachable.clear();
        for (int i = 0; i < NSLOT; ++i)
            if (s[i].used()) with(s[i], [&](auto &b) { compare(when, i, b, s[i].m); return 0; });
        if constexpr (Elem<T>::tracked) {
            Registry &r = Registry::get();
            long live = r.count(Registry::LIVE);
            if ((size_t)live != reachable.size()) {
                for (size_t sn = 1; sn < r.st.size(); ++sn)
                    if (r.st[sn] == Registry::LIVE && !reachable.count((uint32_t)sn))
                        violation("LIFETIME", "%s: element serial %zu still holds a value but is no longer reachable (abandoned without destruction); live=%ld reachable=%zu", when, sn, live, reachable.size());
                violation("LIFETIME", "%s: live=%ld reachable=%zu", when, live, reachable.size());
            }
        }
    }

    // ---- model transitions
    static void m_push_back(Model &m, int v) {
        if (m.v.size() == m.cap) { m.v.pop_front(); m.head = (m.head + 1) % m.cap; m.overwritten = true; }
        m.v.push_back(v);
    }
    static void m_push_front(Model &m, int v) {
        m.head = (m.head + m.cap - 1) % m.cap;
        if (m.v.size() == m.cap) { m.v.pop_back(); m.overwritten = true; }
        m.v.push_front(v);
    }
    static void m_resize(Model &m, size_t nc) {
        if (nc == m.cap) return;
        bool inplace = false;
        if (!m.v.empty()) { size_t last = (m.head + m.v.size() - 1) % m.cap; inplace = m.head <= last && last < nc; }
        else { size_t last = (m.head + m.cap - 1) % m.cap; inplace = m.head <= last && last < nc; }
        while (m.v.size() > nc) m.v.pop_back();
        if (!inplace) m.head = 0;
        m.cap = nc;
    }

    void nt_layout_op(const Model &m, const char *what) {
        if (m.offset()) label("layout_op_head_nonzero");
        if (m.wrapped()) label("layout_op_wrapped");
        if (m.offset() || m.wrapped()) { if (!c09) nontrivial(); label(what); }
    }

    void run(const Case &c) {
        bool thorough = hget(c, 1, 0) != 0;
        maxCap = thorough ? 33 : 9; maxResize = thorough ? 40 : 12;
        c09 = c.prop == "C09";
        int opno = 0;
        for (const Op &o : c.ops) {
            ++opno;
            if (o.k < 0 || o.k >= NKINDS) { count_skipped(); continue; }
            Slot &sl = s[(unsigned)o.a % NSLOT];
            int si = (unsigned)o.a % NSLOT;
            char when[96]; snprintf(when, sizeof when, "after op %d (%s slot %d b=%d c=%d)", opno, kname[o.k], si, o.b, o.c);
            note("op %d: %s slot %d b=%d c=%d", opno, kname[o.k], si, o.b, o.c);
            bool done = true;
            switch (o.k) {
            case CONSTRUCT:
                if (sl.used()) { done = false; break; }
                construct(sl, decode_cap(o.b, o.c), o.c & 1);
                break;
            case CONSTRUCT_IL: {
                if (sl.used()) { done = false; break; }
                size_t n = (size_t)(o.b % (maxCap + 1));
                bool ow = o.c & 1; int extra = (o.c >> 1) % 4;       // 0: default capacity (= n), else n + extra - 1 ... explicit
                std::vector<int> vals; for (size_t i = 0; i < n; ++i) vals.push_back(nextVal++);
                size_t cap = (extra == 0 && n > 0) ? n : n + (size_t)extra + (n == 0 ? 1 : 0);
                bool dflt = (extra == 0 && n > 0);
                auto mk = [&](auto tag) {
                    using B = typename decltype(tag)::type;
                    // initializer_list needs a braced list of fixed length: build by cases up to 4, longer ones via push
                    std::unique_ptr<B> p;
                    auto E = [&](size_t i) { return Elem<T>::make(vals[i]); };
                    size_t m = std::min<size_t>(n, 4);
                    if (m == 0) p.reset(new B(std::initializer_list<T>{}, cap));
                    else if (m == 1) p.reset(dflt && n == 1 ? new B({E(0)}) : new B({E(0)}, cap));
                    else if (m == 2) p.reset(dflt && n == 2 ? new B({E(0), E(1)}) : new B({E(0), E(1)}, cap));
                    else if (m == 3) p.reset(dflt && n == 3 ? new B({E(0), E(1), E(2)}) : new B({E(0), E(1), E(2)}, cap));
                    else p.reset(dflt && n == 4 ? new B({E(0), E(1), E(2), E(3)}) : new B({E(0), E(1), E(2), E(3)}, cap));
                    for (size_t i = m; i < n; ++i) p->push_back(E(i));
                    return p;
                };
                struct T0 { using type = B0; }; struct T1 { using type = B1; };
                { alloctrack::Scope track; if (ow) sl.b1 = mk(T1{}); else sl.b0 = mk(T0{}); }
                sl.m = Model{}; sl.m.cap = cap; sl.m.ow = ow; for (int v : vals) sl.m.v.push_back(v);
                label("construct_il");
                break;
            }
            case PUSH_BACK: case PUSH_FRONT: case EMPLACE_BACK: case EMPLACE_FRONT: {
                ensure(sl, o);
                Model &m = sl.m;
                if (m.unspecified) { done = false; break; }
                if (m.v.size() == m.cap && !m.ow) { done = false; break; }   // documented precondition
                bool willOverwrite = m.v.size() == m.cap;
                bool back = (o.k == PUSH_BACK || o.k == EMPLACE_BACK);
                // aliasing argument (c bit 3): the value pushed is a reference to an element OF THIS BUFFER - half of the time the very
                // element an overwriting push is about to discard (front for a push at the back, back for a push at the front)
                bool alias = (o.c & 8) && !m.v.empty();
                size_t ai = 0;
                if (alias) { ai = ((unsigned)o.b & 1) ? (back ? 0 : m.v.size() - 1) : (size_t)(((unsigned)o.b >> 1) % m.v.size()); label(willOverwrite ? "push_aliasing_element_overwrite" : "push_aliasing_element"); }
                int v = alias ? m.v[ai] : nextVal++;
                call(sl, [&](auto &b) {
                    T *ref;
                    if (alias) {
                        const T &src = b[ai];
                        if (o.k == PUSH_BACK) ref = &b.push_back(src);
                        else if (o.k == PUSH_FRONT) ref = &b.push_front(src);
                        else if (o.k == EMPLACE_BACK) ref = &b.emplace_back(src);
                        else ref = &b.emplace_front(src);
                    }
                    else if (o.k == PUSH_BACK) { T e = Elem<T>::make(v); ref = &b.push_back(e); }
                    else if (o.k == PUSH_FRONT) { T e = Elem<T>::make(v); ref = &b.push_front(e); }
                    else if (o.k == EMPLACE_BACK) { if constexpr (std::is_same_v<T, Pod>) ref = &b.emplace_back(Elem<T>::make(v)); else ref = &b.emplace_back(v); }
                    else { if constexpr (std::is_same_v<T, Pod>) ref = &b.emplace_front(Elem<T>::make(v)); else ref = &b.emplace_front(v); }
                    VF_CHECK(Elem<T>::val(*ref) == v, "CONTENT", "%s: returned reference holds %d, inserted %d", when, Elem<T>::val(*ref), v);
                    VF_CHECK(ref == (back ? &b.back() : &b.front()), "CONTENT", "%s: returned reference is not the inserted element", when);
                    return 0;
                });
                if (back) m_push_back(m, v); else m_push_front(m, v);
                if (willOverwrite) label("overwrite");
                break;
            }
            case POP_BACK: case POP_FRONT: {
                ensure(sl, o);
                Model &m = sl.m;
                if (m.unspecified || m.v.empty()) { done = false; break; }
                int expect = o.k == POP_BACK ? m.v.back() : m.v.front();
                if (m.overwritten) { label("pop_after_overwrite"); if (!c09) nontrivial(); }
                call(sl, [&](auto &b) {
                    T got = o.k == POP_BACK ? b.pop_back() : b.pop_front();
                    VF_CHECK(Elem<T>::val(got) == expect, "CONTENT", "%s: pop returned %d, model %d", when, Elem<T>::val(got), expect);
                    return 0;
                });
                if (o.k == POP_BACK) m.v.pop_back(); else { m.v.pop_front(); m.head = (m.head + 1) % m.cap; }
                break;
            }
            case FRONT_BACK: done = sl.used() && !sl.m.unspecified && !sl.m.v.empty(); break;  // compare() reads front()/back() after every op
            case INDEX_WRITE: {
                ensure(sl, o);
                Model &m = sl.m;
                if (m.unspecified || m.v.empty()) { done = false; break; }
                size_t i = (size_t)o.b % m.v.size(); int v = nextVal++;
                call(sl, [&](auto &b) { if (o.c & 1) *(b.begin() + (std::ptrdiff_t)i) = Elem<T>::make(v); else b[i] = Elem<T>::make(v); return 0; });
                m.v[i] = v;
                break;
            }
            case ITERATE: {
                if (!sl.used() || sl.m.unspecified) { done = false; break; }
                Model &m = sl.m;
                call(sl, [&](auto &b) {
                    auto bg = b.begin(), en = b.end();
                    VF_CHECK((size_t)(en - bg) == m.v.size(), "CONTENT", "%s: end()-begin() = %td, model %zu", when, en - bg, m.v.size());
                    // reverse walk and random access arithmetic
                    size_t n = m.v.size();
                    auto it = en;
                    for (size_t k = n; k-- > 0;) { --it; VF_CHECK(Elem<T>::val(*it) == m.v[k], "CONTENT", "%s: reverse iteration at %zu = %d, model %d", when, k, Elem<T>::val(*it), m.v[k]); }
                    VF_CHECK(it == bg, "CONTENT", "%s: reverse iteration does not end at begin()", when);
                    if (n) {
                        size_t i = (size_t)o.b % n, j = (size_t)o.c % n;
                        auto a = bg + (std::ptrdiff_t)i, z = bg; z += (std::ptrdiff_t)j;
                        VF_CHECK(Elem<T>::val(*a) == m.v[i] && Elem<T>::val(*z) == m.v[j], "CONTENT", "%s: random access iterator reads wrong element", when);
                        VF_CHECK((a - z) == (std::ptrdiff_t)i - (std::ptrdiff_t)j, "CONTENT", "%s: iterator difference wrong", when);
                        VF_CHECK((a < z) == (i < j) && (a <= z) == (i <= j) && (a > z) == (i > j) && (a >= z) == (i >= j) && (a == z) == (i == j), "CONTENT", "%s: iterator comparison wrong", when);
                        auto p = a++; VF_CHECK(Elem<T>::val(*p) == m.v[i], "CONTENT", "%s: post-increment returned wrong position", when);
                        auto q = en - 1; VF_CHECK(Elem<T>::val(*q) == m.v[n - 1], "CONTENT", "%s: end()-1 is not the last element", when);
                        auto r = en; r -= (std::ptrdiff_t)(n - i); VF_CHECK(Elem<T>::val(*r) == m.v[i], "CONTENT", "%s: end() -= k reads the wrong element", when);
                        auto d = bg + (std::ptrdiff_t)j; auto old = d--; VF_CHECK(Elem<T>::val(*old) == m.v[j] && (j == 0 || Elem<T>::val(*d) == m.v[j - 1]), "CONTENT", "%s: post-decrement wrong", when);
                        auto u = bg + (std::ptrdiff_t)i; ++u; --u; VF_CHECK(u == a - 1 && u != en, "CONTENT", "%s: ++/-- do not cancel", when);
                    }
                    return 0;
                });
                break;
            }
            case RESIZE: {
                ensure(sl, o);
                Model &m = sl.m;
                if (m.unspecified) { done = false; break; }
                size_t nc;
                switch ((unsigned)o.c & 3) {
                case 2: { long d = (long)m.cap + ((long)((unsigned)o.b % 9) - 4); nc = d < 1 ? 1 : (size_t)d; label("resize_near_capacity"); break; }   // slight shrink / growth
                case 3: nc = decode_cap(o.b, 12) + ((unsigned)o.b % 3 == 0 ? m.cap : 0); break;                                                   // a large target
                default: nc = 1 + (size_t)((unsigned)o.b % (unsigned)maxResize); break;
                }
                bool cut = nc < m.v.size();
                if (nc != m.cap) {
                    nt_layout_op(m, "resize_on_layout");
                    if (m.overwritten) { label("resize_after_overwrite"); if (!c09) nontrivial(); }
                    if (cut && m.offset()) { label("shrink_cut_head_nonzero"); if (c09) nontrivial(); }
                    if (cut) label("shrink_cut"); else if (nc < m.cap) label("shrink_nocut"); else label("grow");
                    if (m.v.empty()) label("resize_empty");
                    if (m.v.size() == m.cap) label("resize_full");
                    if (m.cap >= 16) label("resize_capacity_16_or_more"); if (m.cap >= 64) label("resize_capacity_64_or_more");
                }
                call(sl, [&](auto &b) { b.resize(nc); return 0; });
                m_resize(m, nc);
                break;
            }
            case COPY_CONSTRUCT: case MOVE_CONSTRUCT: {
                Slot &src = s[(unsigned)o.b % NSLOT];
                if (&src == &sl || !src.used() || src.m.unspecified) { done = false; break; }
                if (sl.used()) destroy(sl);
                nt_layout_op(src.m, o.k == COPY_CONSTRUCT ? "copy_on_layout" : "move_on_layout");
                if (o.k == COPY_CONSTRUCT) {
                    { alloctrack::Scope track; if (src.b0) sl.b0 = std::make_unique<B0>(*src.b0); else sl.b1 = std::make_unique<B1>(*src.b1); }
                    sl.m = src.m; sl.m.head = 0;
                } else {
                    { alloctrack::Scope track; if (src.b0) sl.b0 = std::make_unique<B0>(std::move(*src.b0)); else sl.b1 = std::make_unique<B1>(std::move(*src.b1)); }
                    sl.m = src.m; src.m.unspecified = true;
                }
                break;
            }
            case COPY_ASSIGN: case MOVE_ASSIGN: {
                Slot &src = s[(unsigned)o.b % NSLOT];
                if (!src.used() || !sl.used() || src.m.unspecified || (bool)src.b0 != (bool)sl.b0) { done = false; break; }
                bool self = &src == &sl;
                if (self && sl.m.unspecified) { done = false; break; }
                if (!self) nt_layout_op(src.m, o.k == COPY_ASSIGN ? "copy_on_layout" : "move_on_layout");
                if (o.k == COPY_ASSIGN) {
                    if (!self && !sl.m.unspecified && !sl.m.v.empty()) { label("copy_assign_onto_nonempty"); if (c09) nontrivial(); }
                    { alloctrack::Scope track; if (sl.b0) *sl.b0 = *src.b0; else *sl.b1 = *src.b1; }
                    if (!self) { sl.m = src.m; sl.m.head = 0; } else label("self_assign");
                } else {
                    { alloctrack::Scope track; if (sl.b0) *sl.b0 = std::move(*src.b0); else *sl.b1 = std::move(*src.b1); }
                    if (!self) { sl.m = src.m; src.m.unspecified = true; } else label("self_move_assign");
                }
                break;
            }
            case EQUALS: {
                Slot &other = s[(unsigned)o.b % NSLOT];
                if (!sl.used() || !other.used() || sl.m.unspecified || other.m.unspecified) { done = false; break; }
                bool expect = sl.m.v == other.m.v;
                bool got = with(sl, [&](auto &x) { return with(other, [&](auto &y) { return x == y; }); });
                VF_CHECK(got == expect, "CONTENT", "%s: operator== returned %d, model %d", when, (int)got, (int)expect);
                if ((bool)sl.b0 != (bool)other.b0) label("equals_cross_mode");
                if (expect && &sl != &other) label("equals_true");
                break;
            }
            case DESTROY:
                if (!sl.used()) { done = false; break; }
                if (sl.m.wrapped()) { label("destroy_wrapped"); if (c09) nontrivial(); }
                destroy(sl);
                break;
            case CONST_ACCESS: {
                if (!sl.used() || sl.m.unspecified) { done = false; break; }
                Model &m = sl.m;
                call(sl, [&](auto &b) {
                    const auto &cb = b; size_t n = 0;
                    for (auto it = cb.cbegin(); it != cb.cend(); ++it, ++n) VF_CHECK(n < m.v.size() && Elem<T>::val(*it) == m.v[n], "CONTENT", "%s: const iteration element %zu wrong", when, n);
                    VF_CHECK(n == m.v.size(), "CONTENT", "%s: const iteration length %zu, model %zu", when, n, m.v.size());
                    for (size_t i = 0; i < m.v.size(); ++i) VF_CHECK(Elem<T>::val(cb[i]) == m.v[i], "CONTENT", "%s: const operator[] %zu wrong", when, i);
                    n = 0; for (const T &e : cb) { VF_CHECK(Elem<T>::val(e) == m.v[n], "CONTENT", "%s: const range-for %zu wrong", when, n); ++n; }
                    return 0;
                });
                break;
            }
            case ROTATE: {   // pop_front + push_back, b times: moves the head through the storage
                ensure(sl, o);
                Model &m = sl.m;
                if (m.unspecified || m.v.empty()) { done = false; break; }
                int steps = 1 + o.b % (int)(2 * m.cap);
                for (int k = 0; k < steps; ++k) {
                    int expect = m.v.front();
                    call(sl, [&](auto &b) { T got = b.pop_front(); VF_CHECK(Elem<T>::val(got) == expect, "CONTENT", "%s: rotate pop_front %d, model %d", when, Elem<T>::val(got), expect); b.push_back(got); return 0; });
                    m.v.pop_front(); m.head = (m.head + 1) % m.cap; m.v.push_back(expect);
                }
                break;
            }
            case FILL: {     // push until full (back or front)
                ensure(sl, o);
                Model &m = sl.m;
                if (m.unspecified || m.v.size() == m.cap) { done = false; break; }
                while (m.v.size() < m.cap) {
                    int v = nextVal++;
                    call(sl, [&](auto &b) { if (o.b & 1) b.emplace_front(Elem<T>::make(v)); else b.emplace_back(Elem<T>::make(v)); return 0; });
                    if (o.b & 1) m_push_front(m, v); else m_push_back(m, v);
                }
                break;
            }
            }
            if (done) count_ops(); else count_skipped();
            check_all(when);
        }
        // end of case: everything goes away; afterwards nothing may still hold a value
        for (int i = 0; i < NSLOT; ++i) if (s[i].used()) { if (s[i].m.wrapped()) { label("destroy_wrapped"); if (c09) nontrivial(); } destroy(s[i]); }
        if (const alloctrack::Entry *e = alloctrack::first_live())
            violation("LEAK", "end of case: a block of %zu bytes allocated inside a RingBuffer call was never freed (%ld such blocks)", e->n, alloctrack::live_blocks);
        label_n("blocks_tracked", alloctrack::total_tracked);
        if constexpr (Elem<T>::tracked) {
            Registry &r = Registry::get();
            long live = r.count(Registry::LIVE);
            for (size_t sn = 1; live && sn < r.st.size(); ++sn)
                if (r.st[sn] == Registry::LIVE) violation("LIFETIME", "end of case: element serial %zu was never destroyed (%ld such)", sn, live);
            label_n("tolerated_pop_shells", r.count(Registry::MOVED_FROM));
        }
    }
};

} // namespace

void exec_case(const Case &c) {
    int et = hget(c, 0, 0);
    if (c.prop == "C09") et = 2;
    switch (et) {
    case 0: { label("elem_int"); Runner<int> r; r.run(c); break; }
    case 1: { label("elem_pod"); Runner<Pod> r; r.run(c); break; }
    default: { label("elem_tracked"); Runner<Tracked> r; r.run(c); break; }
    }
}

} // namespace vf
