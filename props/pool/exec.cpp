// Executor for ThreadPool / Thread under the controlled scheduler:
//   C07 every task runs at most once, is destroyed exactly once, never before/during its run; FIFO with one worker
//   C08 stop() terminates in every interleaving and leaves a quiescent, restartable pool; thread count <= max
//   C20 tulz::Thread runs its callable once, on a live copy; isFinished()/join() ordering
#include "../../engine/common/exec.h"
#include "../../engine/vsched/vsched.h"

#include <tulz/threading/Thread.h>
#include <system_error>
#include <tulz/threading/ThreadPool.h>

#include <cstring>
#include <memory>
#include <set>
#include <unistd.h>

using namespace tulz;

namespace vf {
const char *const exec_props = "C07 C08 C20";

namespace {

std::string g_prop;

[[noreturn]] void pviolation(const char *owners, const char *cls, const char *fmt, ...) {
    char m[1500]; va_list ap; va_start(ap, fmt); vsnprintf(m, sizeof m, fmt, ap); va_end(ap);
    if (strstr(owners, g_prop.c_str())) violation(cls, "%s", m);
    note("foreign violation %s (%s): %s", cls, owners, m);
    label((std::string("foreign_") + cls).c_str());
    finish_ok();
    _exit(0);
}

const char *stname(vsched::St s) {
    switch (s) { case vsched::RUNNABLE: return "runnable"; case vsched::B_MUTEX: return "blocked-on-mutex"; case vsched::B_CV: return "parked-on-condvar";
                 case vsched::B_CVT: return "parked-timed"; case vsched::B_JOIN: return "in-join"; case vsched::B_PRED: return "waiting-for-harness-condition"; default: return "finished"; }
}
std::string dump_threads() {
    std::string s;
    for (int t = 0; t < vsched::nthreads(); ++t) { char b[96]; snprintf(b, sizeof b, " t%d:%s", t, stname(vsched::state(t))); s += b; }
    return s;
}

// ------------------------------------------------------------------ ThreadPool (C07, C08)
struct TaskRec { int id; int runs = 0; bool running = false, done = false; int dtors = 0; bool may_be_dropped = false; int worker = -1; int epoch = 0; int copies = 0; };
std::vector<TaskRec> tasks;
enum Phase { IDLE, IN_START, IN_CLEAR, IN_DRAIN, IN_STOP } phase = IDLE;
bool stopped = false;          // stop() returned and no start() since
int maxThreads = 1, last_run_id = -1, epoch = 0;
int expiry = -1;               // -1: non-expiring workers (C07, most of C08); >= 0: expiry timeout in virtual milliseconds (C08 only)
bool switch_in_run = false, stop_met_busy_worker = false;
int tasks_running = 0;
std::set<int> workers_this_epoch;

void task_run(int id, int yields) {
    TaskRec &t = tasks[(size_t)id];
    int tid = vsched::self();
    note("t%d RUN+ task%d", tid, id);
    if (t.dtors) pviolation("C07", "RUN_AFTER_DESTROY", "task %d is executed after it was destroyed", id);
    if (++t.runs > 1) pviolation("C07", "DOUBLE_RUN", "task %d is executed a second time", id);
    if (stopped) pviolation("C07 C08", "RUN_AFTER_STOP", "task %d starts running after stop() has returned", id);
    if (t.epoch != epoch) pviolation("C07 C08", "RUN_AFTER_STOP", "task %d, submitted before the last stop(), runs after it", id);
    if (maxThreads == 1) {
        if (id < last_run_id) pviolation("C07", "ORDER", "single worker: task %d runs after task %d which was submitted later", id, last_run_id);
        if (tasks_running > 0) pviolation("C07", "ORDER", "single worker: task %d starts while an earlier task is still running (tasks must run one after the other, in submission order)", id);
        last_run_id = id;
    }
    workers_this_epoch.insert(tid);
    if (expiry < 0 && (int)workers_this_epoch.size() > maxThreads)      // (with expiry, workers come and go: the live count is checked instead)
        pviolation("C08", "TOO_MANY_THREADS", "%zu distinct worker threads ran tasks, maximum is %d", workers_this_epoch.size(), maxThreads);
    { int livew = 0; for (int w = 1; w < vsched::nthreads(); ++w) livew += vsched::state(w) != vsched::FINISHED;
      if (livew > maxThreads) pviolation("C08", "TOO_MANY_THREADS", "%d worker threads are alive while task %d runs, maximum is %d", livew, id, maxThreads); }
    t.running = true; t.worker = tid; ++tasks_running;
    for (int i = 0; i < yields; ++i) vsched::yield();
    t.running = false; t.done = true; --tasks_running;
    note("t%d RUN- task%d", tid, id);
}
void task_dtor(int id) {
    TaskRec &t = tasks[(size_t)id];
    note("t%d DTOR task%d", vsched::self(), id);
    if (t.running) pviolation("C07", "DESTROYED_WHILE_RUNNING", "task %d is destroyed while it is being executed", id);
    if (++t.dtors > 1) pviolation("C07", "DOUBLE_DESTROY", "task %d is destroyed twice", id);
    if (!t.runs && !t.may_be_dropped) pviolation("C07", "LOST_TASK", "task %d was destroyed without having run although neither clear() nor stop() was called since its submission", id);
}

struct Task : Runnable {
    int id, yields;
    Task(int i, int y) : id(i), yields(y) {}
    void run() override { task_run(id, yields); }
    ~Task() override { task_dtor(id); }
};
// functor submitted through the template start(): the copy that lives inside the pool's TRunnable is "the task"
struct Functor {
    int id, yields;
    Functor(int i, int y) : id(i), yields(y) { ++tasks[(size_t)id].copies; }
    Functor(const Functor &o) : id(o.id), yields(o.yields) { ++tasks[(size_t)id].copies; }
    ~Functor() { if (--tasks[(size_t)id].copies == 0) task_dtor(id); }
    void operator()(int &counter) { ++counter; task_run(id, yields); }
};

void pool_deadlock() {
    std::string st = dump_threads();
    if (phase == IN_DRAIN) {
        std::string pend;
        for (auto &t : tasks) if (!t.done && !t.dtors) pend += " task" + std::to_string(t.id);
        // tasks submitted after a stop() that never run: "a later start() works again" is C08's clause as well
        bool after_stop = false; for (auto &t : tasks) if (!t.done && !t.dtors && t.epoch > 0) after_stop = true;
        pviolation(after_stop ? "C07 C08" : "C07", "LOST_TASK", "deadlock while waiting for submitted tasks to run%s: never executed:%s;%s", after_stop ? " (submitted to a pool that had been stopped and was started again)" : "", pend.c_str(), st.c_str());
    }
    pviolation(phase == IN_STOP ? "C08" : "C08 C07", "DEADLOCK", "no thread can run while the owner is in %s:%s",
               phase == IN_STOP ? "stop()" : phase == IN_START ? "start()" : phase == IN_CLEAR ? "clear()" : "a getter", st.c_str());
}
void pool_switch(int, int) { if (tasks_running > 0) switch_in_run = true; }
void on_steps() { internal_error("scheduler step limit reached"); }

enum PK { START_TASK = 0, START_FUNCTOR, CLEAR, DRAIN, STOP, GETTERS, OWNER_YIELD, ADVANCE_TIME, UPDATE, START_BURST };

void run_pool(const Case &c) {
    maxThreads = 1 + (unsigned)hget(c, 0, 0) % 6;
    { static const int ex[] = {-1, 0, 5, 20}; expiry = g_prop == "C08" ? ex[(unsigned)hget(c, 1, 0) % 4] : -1; }
    if (expiry >= 0) label("expiring_workers");
    bool advanced_since_restart = false;
    static int counter;   // lvalue argument of functor tasks; outlives everything
    counter = 0;
    int functor_runs_expected = 0;
    vsched::on_deadlock = pool_deadlock; vsched::on_switch = pool_switch; vsched::on_step_limit = on_steps;
    tasks.reserve(c.ops.size() * 130 + 8);   // (records must not move: task bodies hold references)
    vsched::set_mode_pct(hget(c, 2, 0) == 1); if (hget(c, 2, 0) == 1) label("pct_schedule");
    vsched::begin(c.sched.data(), c.sched.size());
    {
        auto pool = std::make_unique<ThreadPool>();
        pool->setExpiryTimeout(expiry);
        pool->setMaxThreadCount(maxThreads);
        auto after_op = [&](const char *what) {
            int n = pool->getThreadCount();
            if (n > maxThreads) pviolation("C08", "TOO_MANY_THREADS", "after %s getThreadCount() = %d, maximum is %d", what, n, maxThreads);
            if (n < 0) pviolation("C08", "THREAD_COUNT", "getThreadCount() = %d", n);
            int livew = 0; for (int w = 1; w < vsched::nthreads(); ++w) livew += vsched::state(w) != vsched::FINISHED;
            if (livew > maxThreads) pviolation("C08", "TOO_MANY_THREADS", "after %s %d worker threads are alive, maximum is %d", what, livew, maxThreads);
        };
        auto do_stop = [&] {
            // is a worker alive and not parked (idle about to wait, waking up, or running a task)?
            for (int t = 1; t < vsched::nthreads(); ++t)
                if (vsched::state(t) != vsched::FINISHED && vsched::state(t) != vsched::B_CV) stop_met_busy_worker = true;
            for (auto &t : tasks) if (!t.runs) t.may_be_dropped = true;
            phase = IN_STOP; note("owner stop()");
            pool->stop();
            phase = IDLE; stopped = true; note("owner stop() returned");
            int n = pool->getThreadCount();
            if (n != 0) pviolation("C08", "NOT_QUIESCENT", "getThreadCount() = %d after stop()", n);
            for (auto &t : tasks) {
                if (t.running) pviolation("C08 C07", "NOT_QUIESCENT", "task %d is still running after stop() returned", t.id);
                if (t.dtors != 1) pviolation("C08 C07", "NOT_DESTROYED", "task %d, submitted before stop(), has been destroyed %d times when stop() returned", t.id, t.dtors);
            }
            for (int t = 1; t < vsched::nthreads(); ++t)
                if (vsched::state(t) != vsched::FINISHED) pviolation("C08", "NOT_QUIESCENT", "worker thread t%d has not exited when stop() returned", t);
            ++epoch; workers_this_epoch.clear(); last_run_id = -1;
            if (pool->isRunning()) pviolation("C08", "NOT_QUIESCENT", "isRunning() is true after stop()");
            advanced_since_restart = false;
        };
        int since_stop = 0;
        for (const Op &o : c.ops) {
            switch (o.k) {
            case START_TASK: case START_FUNCTOR: {
                int id = (int)tasks.size();
                tasks.push_back(TaskRec{id}); tasks.back().epoch = epoch;
                int y = 1 + o.b % 2;
                phase = IN_START; stopped = false; note("owner start(task%d)%s", id, o.k == START_FUNCTOR ? " [functor]" : "");
                if (o.k == START_TASK) pool->start(new Task(id, y));
                else { Functor f(id, y); pool->start(f, counter); ++functor_runs_expected; label("functor_task"); }
                phase = IDLE; ++since_stop;
                after_op("start()");
                count_ops();
                break;
            }
            case START_BURST: {
                // many submissions back to back: backlogs and long uninterrupted dequeue sequences (thresholds in queue storage)
                static const int sizes[6] = {5, 20, 34, 40, 70, 130};
                int n = sizes[(unsigned)o.b % 6];
                phase = IN_START; stopped = false; note("owner starts a burst of %d tasks", n);
                for (int k = 0; k < n; ++k) { int id = (int)tasks.size(); tasks.push_back(TaskRec{id}); tasks.back().epoch = epoch; pool->start(new Task(id, (o.c & 1) && k % 8 == 0 ? 1 : 0)); }
                phase = IDLE; since_stop += n;
                after_op("start()"); label(n > 64 ? "burst_over_64" : n > 32 ? "burst_over_32" : "burst"); count_ops();
                break;
            }
            case CLEAR:
                for (auto &t : tasks) if (!t.runs) t.may_be_dropped = true;
                phase = IN_CLEAR; note("owner clear()"); pool->clear(); phase = IDLE;
                after_op("clear()"); label("clear"); count_ops();
                break;
            case DRAIN: {
                // with expiring workers a task can legitimately stay queued behind expired, not yet reaped workers (outside C08);
                // waiting for all work is only meaningful while no virtual time has passed since the last (re)start
                if (expiry >= 0 && advanced_since_restart) { count_skipped(); break; }
                phase = IN_DRAIN; note("owner drain");
                vsched::wait_until([] { for (auto &t : tasks) if (!t.done && !t.dtors) return false; return true; });
                phase = IDLE;
                for (auto &t : tasks)
                    if (!t.may_be_dropped && t.runs != 1) pviolation("C07", "LOST_TASK", "task %d has run %d times when all submitted work was waited for", t.id, t.runs);
                if (since_stop > 0 && epoch > 0) label("ran_after_restart");
                after_op("drain"); label("drain"); count_ops();
                break;
            }
            case STOP: do_stop(); since_stop = 0; label("stop_mid_history"); count_ops(); break;
            case GETTERS: {
                int a = pool->getActiveThreadCount(), n = pool->getThreadCount();
                if (a > n) pviolation("C08", "THREAD_COUNT", "getActiveThreadCount() = %d > getThreadCount() = %d", a, n);
                if (pool->getMaxThreadCount() != maxThreads || pool->getExpiryTimeout() != expiry) pviolation("C08", "THREAD_COUNT", "configuration getters changed");
                after_op("getters"); count_ops();
                break;
            }
            case OWNER_YIELD: vsched::yield(); count_ops(); break;
            case ADVANCE_TIME: {
                if (expiry < 0) { count_skipped(); break; }
                static const long steps[] = {1, 6, 25, 100};
                vsched::advance_time_ms(steps[(unsigned)o.b % 4]); advanced_since_restart = true; label("time_advanced");
                note("owner: %ld ms pass", steps[(unsigned)o.b % 4]); count_ops();
                break;
            }
            case UPDATE: {
                int before = pool->getThreadCount();
                note("owner update()"); pool->update();
                if (o.c & 1) vsched::yield();
                if (pool->getThreadCount() < before) label("update_reaped_expired_worker");
                after_op("update()"); count_ops();
                break;
            }
            default: count_skipped();
            }
        }
        do_stop();
        for (auto &t : tasks) if (t.runs == 1 && !t.done) pviolation("C07", "RUN_INCOMPLETE", "task %d began but never finished", t.id);
    }
    vsched::end();
    if (vsched::spurious_wakeups()) label("spurious_wakeup");
    { std::string w = "W"; for (uint8_t x : vsched::widths()) { if (w.size() > 4000) break; w += (char)('0' + (x > 9 ? 9 : x)); } aux(w); }
    int ran = 0; for (auto &t : tasks) ran += t.runs;
    label_n("tasks", (long)tasks.size()); label_n("tasks_ran", ran); label_n("switches", (long)vsched::switches());
    if (switch_in_run) label("switch_during_task");
    if (stop_met_busy_worker) label("stop_met_busy_worker");
    if (epoch > 1) label("restart");
    if (g_prop == "C07") { if (tasks.size() >= 2 && switch_in_run) nontrivial(); }
    else { if (stop_met_busy_worker) nontrivial(); }
}

// ------------------------------------------------------------------ tulz::Thread (C20)
constexpr unsigned ALIVE = 0xA11CE5ED, DEAD = 0xDEADDEAD, MOVED = 0x30BED0FF;
int calls = 0, exits = 0; bool start_returned = false, child_began_after_return = false;
int g_a1, g_a2;
int copies_alive = 0;

void thread_body_enter(unsigned magic, const char *kind) {
    if (magic == MOVED) pviolation("C20", "DEAD_CALLABLE", "the new thread invoked a %s callable that had been moved from (its contents live elsewhere or nowhere)", kind);
    if (magic != ALIVE) pviolation("C20", "DEAD_CALLABLE", "the new thread invoked a %s callable that had already been destroyed (canary %08x)", kind, magic);
    if (++calls > 1) pviolation("C20", "CALLED_TWICE", "the callable was invoked %d times", calls);
    if (start_returned) child_began_after_return = true;
    note("t%d callable entered (%s)", vsched::self(), kind);
    vsched::yield();
}
void thread_body_exit() { vsched::yield(); ++exits; note("t%d callable returns", vsched::self()); }

struct Small {
    unsigned magic; int tag;
    explicit Small(int t) : magic(ALIVE), tag(t) { ++copies_alive; }
    Small(const Small &o) : magic(o.magic == ALIVE ? ALIVE : o.magic), tag(o.tag) { ++copies_alive; }
    Small(Small &&o) noexcept : magic(o.magic), tag(o.tag) { ++copies_alive; o.magic = MOVED; }   // a moved-from callable is not a live copy
    ~Small() { magic = DEAD; --copies_alive; }
    void operator()() { thread_body_enter(magic, "small closure"); thread_body_exit(); }
    void operator()(int &a) { thread_body_enter(magic, "small closure"); ++a; thread_body_exit(); }
    void operator()(int &a, int &b) { thread_body_enter(magic, "small closure"); ++a; b += 2; thread_body_exit(); }
};
struct Large {
    unsigned magic; char payload[256]; unsigned magic2;
    explicit Large(int t) : magic(ALIVE), magic2(ALIVE) { memset(payload, t, sizeof payload); ++copies_alive; }
    Large(const Large &o) : magic(o.magic), magic2(o.magic2) { memcpy(payload, o.payload, sizeof payload); ++copies_alive; }
    Large(Large &&o) noexcept : magic(o.magic), magic2(o.magic2) { memcpy(payload, o.payload, sizeof payload); ++copies_alive; o.magic = MOVED; o.magic2 = MOVED; }
    ~Large() { magic = DEAD; magic2 = DEAD; memset(payload, 0xDD, sizeof payload); --copies_alive; }
    void check() { for (char ch : payload) if (ch != payload[0] || (unsigned char)ch == 0xDD) pviolation("C20", "DEAD_CALLABLE", "large closure payload was overwritten or destroyed"); if (magic2 != ALIVE) thread_body_enter(magic2, "large closure"); }
    void operator()() { thread_body_enter(magic, "large closure"); check(); thread_body_exit(); }
    void operator()(int &a) { thread_body_enter(magic, "large closure"); check(); ++a; thread_body_exit(); }
    void operator()(int &a, int &b) { thread_body_enter(magic, "large closure"); check(); ++a; b += 2; thread_body_exit(); }
};
void fn0() { thread_body_enter(ALIVE, "function pointer"); thread_body_exit(); }
void fn1(int &a) { thread_body_enter(ALIVE, "function pointer"); ++a; thread_body_exit(); }
void fn2(int &a, int &b) { thread_body_enter(ALIVE, "function pointer"); ++a; b += 2; thread_body_exit(); }

int r_runs = 0, r_dtors = 0; bool r_running = false;
struct LogRunnable : Runnable {
    void run() override { if (++r_runs > 1) pviolation("C20", "CALLED_TWICE", "Runnable::run() invoked twice"); if (start_returned) child_began_after_return = true; r_running = true; vsched::yield(); r_running = false; ++exits; }
    ~LogRunnable() override { if (r_running) pviolation("C20", "RUNNABLE_LIFETIME", "Runnable destroyed while running"); if (!r_runs) pviolation("C20", "RUNNABLE_LIFETIME", "Runnable destroyed before it ran"); if (++r_dtors > 1) pviolation("C20", "RUNNABLE_LIFETIME", "Runnable destroyed twice"); }
};

// start() is called from a helper frame that returns; the callable object dies with it
template <int N, class C> __attribute__((noinline)) void launch(Thread &t, bool viaCtor, C make) {
    auto c = make();
    if (viaCtor) {
        // Thread(T ptr, Args&&...) forwards to start(); Thread is not movable, so it is constructed in place
        if constexpr (N == 0) new (&t) Thread(c); else if constexpr (N == 1) new (&t) Thread(c, g_a1); else new (&t) Thread(c, g_a1, g_a2);
    } else {
        if constexpr (N == 0) t.start(c); else if constexpr (N == 1) t.start(c, g_a1); else t.start(c, g_a1, g_a2);
    }
}
template <class C> void launch_n(Thread &t, int nargs, bool viaCtor, C make) {
    if (nargs == 0) launch<0>(t, viaCtor, make); else if (nargs == 1) launch<1>(t, viaCtor, make); else launch<2>(t, viaCtor, make);
}
__attribute__((noinline)) void clobber_stack() { volatile char buf[4096]; memset((void *)buf, 0x5A, sizeof buf); asm volatile("" ::: "memory"); }

void thread_deadlock() { std::string st = dump_threads(); pviolation("C20", "DEADLOCK", "no thread can run:%s", st.c_str()); }

void run_thread(const Case &c) {
    int kind = (unsigned)hget(c, 0, 0) % 4, nargs = (unsigned)hget(c, 1, 0) % 3; bool viaCtor = hget(c, 2, 0) & 1;
    int polls = 1 + (unsigned)hget(c, 3, 0) % 4;
    static const char *kn[] = {"kind_function_pointer", "kind_small_closure", "kind_large_closure", "kind_runnable"};
    label(kn[kind]);
    vsched::on_deadlock = thread_deadlock; vsched::on_step_limit = on_steps;
    g_a1 = 0; g_a2 = 0;
    vsched::set_mode_pct(hget(c, 4, 0) == 1); if (hget(c, 4, 0) == 1) label("pct_schedule");
    vsched::begin(c.sched.data(), c.sched.size());
    {
        alignas(Thread) unsigned char storage[sizeof(Thread)];
        Thread *tp;
        if (viaCtor && kind != 3) tp = reinterpret_cast<Thread *>(storage); else tp = new (storage) Thread();
        Thread &t = *tp;
        if (viaCtor && kind != 3) label("via_constructor");
        // injected fault (h[5] = k > 0): the first k thread creations fail with EAGAIN ("resource temporarily unavailable"); start()
        // reports that as std::system_error and the caller simply tries again - the start that succeeds must satisfy the property
        int faults = (unsigned)hget(c, 5, 0) % 4;
        if (faults) { vsched::fail_next_thread_creations(faults); label("thread_creation_fault_injected"); }
        LogRunnable *runnable = kind == 3 ? new LogRunnable() : nullptr;
        for (int attempt = 0;; ++attempt) {
            try {
                switch (kind) {
                case 0:
                    if (nargs == 0) launch<0>(t, viaCtor, [] { return &fn0; }); else if (nargs == 1) launch<1>(t, viaCtor, [] { return &fn1; }); else launch<2>(t, viaCtor, [] { return &fn2; });
                    break;
                case 1: launch_n(t, nargs, viaCtor, [] { return Small(7); }); break;
                case 2: launch_n(t, nargs, viaCtor, [] { return Large(9); }); break;
                default: t.start(runnable); nargs = 0; break;
                }
                break;
            } catch (const std::system_error &e) {
                if (!faults || attempt >= 8) pviolation("C20", "START_FAILED", "start() threw std::system_error (%s) on attempt %d although at most %d creations were made to fail", e.what(), attempt + 1, faults);
                if (calls || r_runs) pviolation("C20", "CALLED_TWICE", "start() reported failure but the callable had been invoked");
                label("start_retried_after_failure");
            }
        }
        vsched::fail_next_thread_creations(0);
        start_returned = true;
        clobber_stack();            // the starting thread keeps using its stack
        for (int i = 0; i < polls; ++i) {
            vsched::yield();
            clobber_stack();
            bool fin = t.isFinished();
            if (fin && exits != 1) pviolation("C20", "FINISHED_EARLY", "isFinished() is true but the callable has not returned yet (exits=%d)", exits);
            if (fin != !t.isRunning()) pviolation("C20", "FINISHED_EARLY", "isRunning() and isFinished() disagree");
            if (fin) label("observed_finished_before_join");
        }
        if (!t.isJoinable()) pviolation("C20", "NOT_JOINABLE", "a started Thread is not joinable");
        t.join();
        if (exits != 1) pviolation("C20", "JOIN_EARLY", "join() returned but the callable returned %d times", exits);
        if (!t.isFinished() || t.isRunning()) pviolation("C20", "NOT_FINISHED", "after join() isFinished() is %d, isRunning() is %d", (int)t.isFinished(), (int)t.isRunning());
        if (kind == 3) {
            if (r_runs != 1 || r_dtors != 1) pviolation("C20", "RUNNABLE_LIFETIME", "after join(): Runnable ran %d times and was destroyed %d times", r_runs, r_dtors);
        } else {
            if (calls != 1) pviolation("C20", "NOT_CALLED", "after join() the callable was invoked %d times", calls);
            if (nargs >= 1 && g_a1 != 1) pviolation("C20", "ARGS", "first lvalue argument is %d after the call, expected 1", g_a1);
            if (nargs >= 2 && g_a2 != 2) pviolation("C20", "ARGS", "second lvalue argument is %d after the call, expected 2", g_a2);
        }
        t.~Thread();
        if (copies_alive != 0) pviolation("C20", "CALLABLE_LEAK", "%d copies of the callable are still alive after the Thread object was destroyed", copies_alive);
    }
    vsched::end();
    if (vsched::spurious_wakeups()) label("spurious_wakeup");
    { std::string w = "W"; for (uint8_t x : vsched::widths()) { if (w.size() > 4000) break; w += (char)('0' + (x > 9 ? 9 : x)); } aux(w); }
    if (child_began_after_return) { label("child_ran_after_start_returned"); nontrivial(); }
}

} // namespace

void exec_case(const Case &c) {
    g_prop = c.prop;
    if (c.prop == "C20") run_thread(c); else run_pool(c);
}

} // namespace vf
