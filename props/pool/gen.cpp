// Generators for ThreadPool (C07, C08) owner programs and Thread (C20) start scenarios, each with a schedule.
#include "../../engine/pbt/gen.h"
using namespace vf;

namespace {
enum PK { START_TASK = 0, START_FUNCTOR, CLEAR, DRAIN, STOP, GETTERS, OWNER_YIELD };

Register r07("C07", [](Tier t) {
    int n = t == THOROUGH ? 20 : 10, sl = t == THOROUGH ? 240 : 120;
    // h[0]: max thread count - 1 (0..3, thorough 0..5)
    auto ops = genOps({{START_TASK, 10, 0, 2, 0}, {START_FUNCTOR, 3, 0, 2, 0}, {CLEAR, 3, 0, 0, 0}, {DRAIN, 3, 0, 0, 0},
                       {STOP, 2, 0, 0, 0}, {GETTERS, 1, 0, 0, 0}, {OWNER_YIELD, 3, 0, 0, 0}}, n);
    return genCase("C07", genHeader({{0, t == THOROUGH ? 5 : 3}}), ops, genSched(sl));
});
Register r08("C08", [](Tier t) {
    int n = t == THOROUGH ? 20 : 10, sl = t == THOROUGH ? 240 : 120;
    // weighted towards start*; stop with few tasks and workers, and stop/restart cycles
    auto ops = genOps({{START_TASK, 8, 0, 2, 0}, {STOP, 5, 0, 0, 0}, {START_FUNCTOR, 2, 0, 2, 0}, {DRAIN, 2, 0, 0, 0},
                       {OWNER_YIELD, 4, 0, 0, 0}, {CLEAR, 1, 0, 0, 0}, {GETTERS, 2, 0, 0, 0}}, n);
    return genCase("C08", genHeader({{0, t == THOROUGH ? 5 : 2}}), ops, genSched(sl));
});
Register r20("C20", [](Tier t) {
    // h: callable kind (fn pointer | small closure | large closure | Runnable), #lvalue args, via constructor, #isFinished polls
    return genCase("C20", genHeader({{0, 3}, {0, 2}, {0, 1}, {0, 3}}), rc::gen::just(std::vector<Op>{}), genSched(t == THOROUGH ? 80 : 40));
});
} // namespace
