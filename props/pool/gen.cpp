// Generators for ThreadPool (C07, C08) owner programs and Thread (C20) start scenarios, each with a schedule.
#include "../../engine/pbt/gen.h"
using namespace vf;

namespace {
enum PK { START_TASK = 0, START_FUNCTOR, CLEAR, DRAIN, STOP, GETTERS, OWNER_YIELD, ADVANCE_TIME, UPDATE, START_BURST };

Register r07("C07", [](Tier t) {
    int n = t == THOROUGH ? 20 : 10, sl = t == THOROUGH ? 240 : 120;
    // h[0]: max thread count - 1 (0..3, thorough 0..5)
    auto ops = genOps({{START_TASK, 10, 0, 2, 0}, {START_FUNCTOR, 3, 0, 2, 0}, {CLEAR, 3, 0, 0, 0}, {DRAIN, 4, 0, 0, 0},
                       {STOP, 2, 0, 0, 0}, {GETTERS, 1, 0, 0, 0}, {OWNER_YIELD, 3, 0, 0, 0}, {START_BURST, 1, 0, 5, 1}}, n);
    return rc::gen::weightedOneOf<Case>({{4, genCase("C07", genHeader({{0, t == THOROUGH ? 5 : 3}, {0, 0}, {0, 0}}), ops, genSched(sl))},
                                         {1, genCase("C07", genHeader({{0, t == THOROUGH ? 5 : 3}, {0, 0}, {1, 1}}), ops, genSchedPCT())}});
});
Register r08("C08", [](Tier t) {
    int n = t == THOROUGH ? 20 : 10, sl = t == THOROUGH ? 240 : 120;
    // weighted towards start*; stop with few tasks and workers, and stop/restart cycles
    auto ops = genOps({{START_TASK, 8, 0, 2, 0}, {STOP, 5, 0, 0, 0}, {START_FUNCTOR, 2, 0, 2, 0}, {DRAIN, 2, 0, 0, 0},
                       {OWNER_YIELD, 4, 0, 0, 0}, {CLEAR, 1, 0, 0, 0}, {GETTERS, 2, 0, 0, 0}}, n);
    // expiring workers under a virtual clock: time passes only through ADVANCE_TIME; update() wakes and reaps expired workers
    auto opsx = genOps({{START_TASK, 9, 0, 2, 0}, {ADVANCE_TIME, 6, 0, 3, 0}, {UPDATE, 6, 0, 0, 1}, {STOP, 4, 0, 0, 0}, {OWNER_YIELD, 4, 0, 0, 0},
                        {START_FUNCTOR, 1, 0, 2, 0}, {DRAIN, 1, 0, 0, 0}, {GETTERS, 2, 0, 0, 0}, {CLEAR, 1, 0, 0, 0}}, n + 4);
    // h[0]: max thread count - 1; h[1]: expiry selector (0: non-expiring, 1..3: 0 / 5 / 20 virtual ms)
    return rc::gen::weightedOneOf<Case>({{3, genCase("C08", genHeader({{0, t == THOROUGH ? 5 : 2}, {0, 0}, {0, 0}}), ops, genSched(sl))},
                                         {2, genCase("C08", genHeader({{0, t == THOROUGH ? 5 : 3}, {1, 3}, {0, 0}}), opsx, genSched(sl))},
                                         {1, genCase("C08", genHeader({{0, t == THOROUGH ? 5 : 2}, {0, 3}, {1, 1}}), opsx, genSchedPCT())}});
});
Register r20("C20", [](Tier t) {
    // h: callable kind (fn pointer | small closure | large closure | Runnable), #lvalue args, via constructor, #isFinished polls
    // h[5]: number of thread creations made to fail with EAGAIN before one succeeds (fault injection; the caller retries start())
    return rc::gen::weightedOneOf<Case>({{4, genCase("C20", genHeader({{0, 3}, {0, 2}, {0, 1}, {0, 3}, {0, 0}}), rc::gen::just(std::vector<Op>{}), genSched(t == THOROUGH ? 80 : 40))},
                                         {2, genCase("C20", genHeader({{0, 3}, {0, 2}, {0, 1}, {0, 3}, {0, 0}, {1, 3}}), rc::gen::just(std::vector<Op>{}), genSched(t == THOROUGH ? 80 : 40))},
                                         {1, genCase("C20", genHeader({{0, 3}, {0, 2}, {0, 1}, {0, 3}, {1, 1}}), rc::gen::just(std::vector<Op>{}), genSchedPCT())}});
});

// ---- small-scope program spaces
EnumSpace poolspace(const std::string &prop) {
    EnumSpace e;
    // max threads in {1,2,3} x program in a fixed list of short owner programs (every one ends in the implicit stop())
    static const std::vector<std::vector<int>> progs = {
        {}, {START_TASK}, {START_TASK, START_TASK}, {START_TASK, START_TASK, START_TASK}, {START_FUNCTOR}, {START_TASK, OWNER_YIELD}, {START_TASK, DRAIN},
        {START_TASK, START_TASK, DRAIN}, {START_TASK, CLEAR}, {START_TASK, START_TASK, CLEAR, DRAIN}, {START_TASK, STOP, START_TASK}, {START_TASK, STOP, START_TASK, DRAIN},
        {START_TASK, START_TASK, STOP}, {STOP, START_TASK}, {START_TASK, CLEAR, START_TASK, DRAIN}, {START_FUNCTOR, START_TASK, DRAIN}};
    // expiring workers (virtual clock, expiry 5 ms; ADVANCE_TIME here always means 25 ms) - C08 only
    static const std::vector<std::vector<int>> xprogs = {
        {START_TASK, ADVANCE_TIME}, {START_TASK, START_TASK, ADVANCE_TIME}, {START_TASK, ADVANCE_TIME, UPDATE}, {START_TASK, START_TASK, ADVANCE_TIME, UPDATE, OWNER_YIELD, UPDATE},
        {START_TASK, ADVANCE_TIME, UPDATE, START_TASK, START_TASK}, {START_TASK, START_TASK, ADVANCE_TIME, UPDATE, START_TASK, START_TASK, START_TASK},
        {START_TASK, ADVANCE_TIME, START_TASK}, {START_TASK, START_TASK, START_TASK, ADVANCE_TIME}};
    const size_t nx = prop == "C08" ? xprogs.size() : 0;
    e.count = (progs.size() + nx) * 3;
    e.description = "ThreadPool owner programs: 16 fixed short programs (0-3 tasks, clear/drain/stop/restart) with non-expiring workers, and for C08 8 more with workers "
                    "that expire after 5 virtual ms (time passes, update(), further submissions), each x max thread count in {1,2,3}";
    e.at = [prop](size_t i) {
        Case c; c.prop = prop;
        size_t pi = i / 3;
        if (pi < progs.size()) { c.h = {(int)(i % 3), 0}; for (int k : progs[pi]) c.ops.push_back(Op{k, 0, 0, 0}); }
        else { c.h = {(int)(i % 3), 2}; for (int k : xprogs[pi - progs.size()]) c.ops.push_back(Op{k, 0, 2, 0}); }
        return c;
    };
    return e;
}
RegisterEnum e07("C07", poolspace("C07"));
RegisterEnum e08("C08", poolspace("C08"));
RegisterEnum e20("C20", [] {
    EnumSpace e; e.count = 4 * 3 * 2 * 2;
    e.description = "Thread start scenarios: callable kind (4) x lvalue arguments (0-2) x start()/constructor x 1-2 isFinished() polls";
    e.at = [](size_t i) { Case c; c.prop = "C20"; c.h = {(int)(i % 4), (int)((i / 4) % 3), (int)((i / 12) % 2), (int)((i / 24) % 2)}; return c; };
    return e;
}());
} // namespace
