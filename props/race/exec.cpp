// Executor for C15: threading components are free of data races under their intended use.
// Free-running stress programs (no controlled scheduler) built with ThreadSanitizer; TSan is the oracle.
// Families: 0 rwp::Resource + guards, 1 ThreadPool (one owner thread, expiring workers), 2 ConcurrentSubjectRouter.
#include "../../engine/common/exec.h"

#include <tulz/observer/routing/ConcurrentSubjectRouter.h>
#include <tulz/observer/routing/RoutingKeyBuilder.h>
#include <tulz/threading/Thread.h>
#include <tulz/threading/ThreadPool.h>
#include <tulz/threading/rwp/ReadLock.h>
#include <tulz/threading/rwp/Resource.h>
#include <tulz/threading/rwp/WriteLock.h>

#include <atomic>
#include <chrono>
#include <memory>
#include <thread>
#include <unistd.h>

using namespace tulz;

namespace vf {
const char *const exec_props = "C15";

namespace {
std::atomic<int> inside{0}, max_inside{0};
struct In { In() { int v = ++inside; int m = max_inside.load(); while (v > m && !max_inside.compare_exchange_weak(m, v)) {} } ~In() { --inside; } };

void spin(int us) { auto t0 = std::chrono::steady_clock::now(); while (std::chrono::steady_clock::now() - t0 < std::chrono::microseconds(us)) {} }
void noise(int kind) { if (kind == 1) sched_yield(); else if (kind == 2) usleep(50); }

// start all threads of a round at (nearly) the same time
struct Gate { std::atomic<int> waiting{0}; std::atomic<bool> open{false}; void wait() { ++waiting; while (!open.load()) std::this_thread::yield(); } };

// ---------------------------------------------------------------- family 0: Resource
void run_resource(const Case &c, int reps) {
    int nth = 2 + (unsigned)hget(c, 2, 0) % 5;
    std::vector<std::vector<Op>> per((size_t)nth);
    for (const Op &o : c.ops) per[(unsigned)o.a % (unsigned)nth].push_back(o);
    for (int r = 0; r < reps; ++r) {
        rwp::Resource res;
        Gate g;
        std::vector<std::thread> th;
        for (int t = 0; t < nth; ++t)
            th.emplace_back([&, t] {
                g.wait();
                for (const Op &o : per[(size_t)t]) {
                    bool w = o.k & 1, guard = o.b & 1; int hold = (o.b >> 1) % 4 * 20;
                    In in;
                    if (guard) { if (w) { rwp::WriteLock l(res); spin(hold); } else { rwp::ReadLock l(res); spin(hold); } }
                    else { if (w) res.lockWrite(); else res.lockRead(); spin(hold); noise(o.c % 3); if (w) res.unlockWrite(); else res.unlockRead(); }
                }
            });
        while (g.waiting.load() < nth) std::this_thread::yield();
        g.open = true;
        for (auto &t : th) t.join();
    }
    if (max_inside.load() >= 2) nontrivial();
}

// ---------------------------------------------------------------- family 1: ThreadPool
std::atomic<long> task_runs{0};
struct Busy : Runnable { int us; explicit Busy(int u) : us(u) {} void run() override { In in; spin(us); ++task_runs; } };
enum PK { P_START = 0, P_START_FN, P_CLEAR, P_UPDATE, P_STOP, P_GETTERS, P_SLEEP, PNK };

void run_pool(const Case &c, int reps) {
    bool expired = false, stop_met_worker = false;
    for (int r = 0; r < reps; ++r) {
        ThreadPool pool;
        pool.setExpiryTimeout((int)((unsigned)hget(c, 2, 0) % 4));          // 0..3 ms: workers really expire
        pool.setMaxThreadCount(1 + (int)((unsigned)hget(c, 3, 0) % 4));
        static int arg;
        for (const Op &o : c.ops) {
            switch ((unsigned)o.k % PNK) {
            case P_START: pool.start(new Busy((o.b % 5) * 50)); break;
            case P_START_FN: pool.start([](int &a) { In in; (void)a; spin(30); ++task_runs; }, arg); break;
            case P_CLEAR: pool.clear(); break;
            case P_UPDATE: { int before = pool.getThreadCount(); pool.update(); if (pool.getThreadCount() < before) expired = true; break; }
            case P_STOP: if (pool.getThreadCount() > 0) stop_met_worker = true; pool.stop(); break;
            case P_GETTERS: { In in; (void)pool.getThreadCount(); (void)pool.getActiveThreadCount(); (void)pool.isRunning(); (void)pool.getExpiryTimeout(); (void)pool.getMaxThreadCount(); break; }
            case P_SLEEP: usleep((useconds_t)((o.b % 6) * 1000)); break;
            }
            noise(o.c % 3);
            count_ops();
        }
        if (pool.getThreadCount() > 0) stop_met_worker = true;
        pool.stop();          // ThreadPool has no destructor
    }
    if (expired) label("worker_expired");
    if (stop_met_worker) label("stop_met_live_worker");
    if (expired || stop_met_worker) nontrivial();
}

// ---------------------------------------------------------------- family 2: ConcurrentSubjectRouter
enum RK { R_NOTIFY = 0, R_SUBSCRIBE, R_UNSUBSCRIBE, R_SHRINK, R_EXISTS, R_DEPTH, RNK };
RoutingKey rkey(int b, bool pattern) {
    static const char *N[] = {"a", "b"};
    RoutingKeyBuilder bd; unsigned d = (unsigned)b % 3, ub = (unsigned)b / 3;
    for (unsigned i = 0; i < d; ++i) { if (pattern && (ub & 2)) bd.all(); else bd.level(std::string(N[ub & 1])); ub >>= 2; }
    return bd.build();
}
void run_router(const Case &c, int reps) {
    int nth = 3 + (unsigned)hget(c, 2, 0) % 4;
    // routing keys (and the std::regex objects inside them) are built by the main thread before the workers start: keys are
    // immutable inputs of the router operations; building std::regex concurrently trips a lazily filled cache inside libstdc++
    struct POp { int k; RoutingKey key; int noise; };
    std::vector<std::vector<POp>> per((size_t)nth);
    for (const Op &o : c.ops) { int k = (int)((unsigned)o.k % RNK); per[(unsigned)o.a % (unsigned)nth].push_back(POp{k, rkey(o.b, k != R_SUBSCRIBE), o.c % 3}); }
    std::vector<RoutingKey> prekeys; for (int i = 0; i < 3; ++i) prekeys.push_back(rkey(4 + i * 5, false));
    std::atomic<long> calls{0};
    for (int r = 0; r < reps; ++r) {
        ConcurrentSubjectRouter router;
        std::vector<USubscription> pre;
        for (int i = 0; i < 3; ++i) pre.push_back(router.subscribe(prekeys[(size_t)i], [&calls] { ++calls; }));
        Gate g;
        std::vector<std::thread> th;
        for (int t = 0; t < nth; ++t)
            th.emplace_back([&, t] {
                std::vector<USubscription> mine;
                g.wait();
                for (const POp &o : per[(size_t)t]) {
                    In in;
                    switch (o.k) {
                    case R_NOTIFY: router.notify(o.key); break;
                    case R_SUBSCRIBE: mine.push_back(router.subscribe(o.key, [&calls] { ++calls; })); break;
                    case R_UNSUBSCRIBE: if (!mine.empty()) { mine.back()->unsubscribe(); mine.pop_back(); } break;
                    case R_SHRINK: router.shrink(o.key); break;
                    case R_EXISTS: (void)router.exists(o.key); break;
                    case R_DEPTH: (void)router.depth(); break;
                    }
                    noise(o.noise);
                }
                for (auto &s : mine) s->unsubscribe();
            });
        while (g.waiting.load() < nth) std::this_thread::yield();
        g.open = true;
        for (auto &t : th) t.join();
    }
    if (max_inside.load() >= 2) nontrivial();
}

// ---------------------------------------------------------------- family 3: tulz::Thread completion flag
// The owner polls isFinished() and, once it is true, reads what the callable wrote WITHOUT joining first: "isFinished()
// becomes true only after the callable has returned" must be a happens-before edge, not just a temporal one.
struct Box { int plain = 0; char pad[64]; long big[8] = {}; };
void thread_fn(Box &b, int &v) { spin(20); b.plain = 7; v = 9; for (long &x : b.big) x = 3; }
struct LogRun : Runnable { Box *b; explicit LogRun(Box *x) : b(x) {} void run() override { In in; spin(20); b->plain = 7; for (long &x : b->big) x = 3; } };
void run_thread(const Case &c, int reps) {
    int kind = (unsigned)hget(c, 2, 0) % 3;
    long sum = 0;
    for (int r = 0; r < reps * 3; ++r) {
        Box box; int v = 0;
        Thread t;
        if (kind == 0) t.start(&thread_fn, box, v);
        else if (kind == 1) t.start([&box, &v](int &extra) { In in; spin(10); box.plain = 7; v = 9; extra = 1; for (long &x : box.big) x = 3; }, v);
        else t.start(new LogRun(&box));
        In in;
        while (!t.isFinished()) { if ((r & 3) == 0) std::this_thread::yield(); }
        sum += box.plain + box.big[7] + (kind == 2 ? 0 : v);      // plain reads, ordered only by the completion flag
        if (t.isRunning()) sum += 1000;
        t.join();
    }
    if (sum < 0) label("never");
    count_ops(reps * 3);
    nontrivial();
}

} // namespace

void exec_case(const Case &c) {
    int family = (unsigned)hget(c, 0, 0) % 4;
    int reps = 3 + (unsigned)hget(c, 1, 0) % 10;
    static const char *fn[] = {"family_resource", "family_threadpool", "family_router", "family_thread_completion_flag"};
    label(fn[family]);
    if (family == 0) run_resource(c, reps); else if (family == 1) run_pool(c, reps); else if (family == 2) run_router(c, reps); else run_thread(c, reps);
    if (family == 0 || family == 2) count_ops((long)c.ops.size() * reps);   // (harness counters are touched by the main thread only)
    label_n("max_threads_inside_tulz", max_inside.load());
}

} // namespace vf

// libstdc++'s std::ctype<char>::narrow fills a per-facet cache lazily without synchronisation (std::regex construction /
// matching from several threads); it is not tulz code and not a property of tulz
extern "C" const char *__tsan_default_suppressions() { return "race:std::ctype<char>::narrow\nrace:std::ctype<char>::_M_narrow_init\n"; }
extern "C" const char *__tsan_default_options() {
    return "halt_on_error=1:report_thread_leaks=0:detect_deadlocks=0:exitcode=66:second_deadlock_stack=0:history_size=4";
}
