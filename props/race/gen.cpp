// Generator for C15: free-running stress programs for three families (Resource, ThreadPool, ConcurrentSubjectRouter).
#include "../../engine/pbt/gen.h"
using namespace vf;
namespace {
Register r15("C15", [](Tier t) {
    int n = t == THOROUGH ? 60 : 30;
    // h[0] family, h[1] repetitions selector, h[2] threads / expiry timeout selector, h[3] max thread count selector
    auto resource = genCase("C15", genHeader({{0, 0}, {0, 9}, {0, 4}, {0, 0}}), genOps({{0, 3, 7, 7, 2}, {1, 2, 7, 7, 2}}, n));
    auto pool = genCase("C15", genHeader({{1, 1}, {0, 9}, {0, 3}, {0, 3}}),
                        genOps({{0, 10, 0, 5, 2}, {1, 3, 0, 5, 2}, {2, 2, 0, 0, 2}, {3, 6, 0, 0, 2}, {4, 2, 0, 0, 2}, {5, 4, 0, 0, 2}, {6, 6, 0, 5, 2}}, n));
    auto router = genCase("C15", genHeader({{2, 2}, {0, 9}, {0, 3}, {0, 0}}),
                          genOps({{0, 8, 7, 26, 2}, {1, 6, 7, 26, 2}, {2, 4, 7, 26, 2}, {3, 3, 7, 26, 2}, {4, 2, 7, 26, 2}, {5, 2, 7, 26, 2}}, n));
    auto thread = genCase("C15", genHeader({{3, 3}, {0, 9}, {0, 2}, {0, 0}}), rc::gen::just(std::vector<Op>{}));
    return rc::gen::weightedOneOf<Case>({{2, resource}, {4, pool}, {3, router}, {1, thread}});
});
} // namespace
