// C16: Observable notifies exactly on change, with the new value.
// Oracle: reference model (value, equality) computed with the same C++ arithmetic; per op and per live subscriber
// the exact number of notifications (0 or 1) and the value carried.
#include "../../engine/common/exec.h"

#include <tulz/observer/Observable.h>

#include <cmath>
#include <cstring>
#include <memory>
#include <string>
#include <string_view>
#include <vector>

using namespace tulz;

namespace vf {
namespace {

enum K { ASSIGN = 0, ADD, SUB, MUL, DIV, PRE_INC, POST_INC, PRE_DEC, POST_DEC, APPLY_SET, APPLY_ADD, APPLY_NOOP, SUBSCRIBE, UNSUBSCRIBE, ASSIGN_SAME, ASSIGN_OTHER_TYPE, NK };
const char *kname[] = {"=", "+=", "-=", "*=", "/=", "++x", "x++", "--x", "x--", "apply(set)", "apply(add)", "apply(no-op)", "subscribe", "unsubscribe", "=(current value)", "=(value of another type)"};

struct NearEq {
    double eps;
    bool operator()(const double &a, const double &b) const { return std::fabs(a - b) < eps; }
};

template <class T> std::string show(const T &v) { return std::to_string(v); }
template <> std::string show<std::string>(const std::string &v) { return "\"" + v + "\""; }
template <class T> bool same_bits(const T &a, const T &b) { return std::memcmp(&a, &b, sizeof(T)) == 0; }
template <> bool same_bits<std::string>(const std::string &a, const std::string &b) { return a == b; }

// ObsT: for long and std::string the Observable is instantiated with its DEFAULT equality, as users write it
template <class T, class Eq, class ObsT = Observable<T, Eq>> struct Runner {
    using Obs = ObsT;
    struct SubRec { Subscription<T &> sub; std::vector<T> got; int flavour; bool live = true; };
    std::unique_ptr<Obs> ob;
    Eq eq;
    T model;
    std::vector<std::unique_ptr<SubRec>> subs;
    bool saw_change = false, saw_nochange = false, two_subs_both = false;

    size_t live_count() { size_t n = 0; for (auto &s : subs) n += s->live; return n; }

    void add_sub(int flavour) {
        auto r = std::make_unique<SubRec>(); r->flavour = flavour % 3;
        SubRec *p = r.get();
        if (r->flavour == 0) r->sub = ob->subscribe([p](T &v) { p->got.push_back(v); });
        else if (r->flavour == 1) r->sub = ob->subscribe([p](const T &v) { p->got.push_back(v); });
        else r->sub = ob->subscribe([p](T v) { p->got.push_back(v); });
        subs.push_back(std::move(r));
    }

    // after an op: every live subscriber got exactly `expectN` notifications carrying the post-op value
    void expect(const char *when, bool notified) {
        for (size_t i = 0; i < subs.size(); ++i) {
            SubRec &s = *subs[i];
            size_t want = (s.live && notified) ? 1 : 0;
            VF_CHECK(s.got.size() == want, "NOTIFY", "%s: subscriber %zu received %zu notifications, expected %zu (value now %s)", when, i, s.got.size(), want, show(model).c_str());
            if (want) VF_CHECK(same_bits(s.got[0], model), "NOTIFY", "%s: subscriber %zu was notified with %s, the post-operation value is %s", when, i, show(s.got[0]).c_str(), show(model).c_str());
            s.got.clear();
        }
        VF_CHECK(same_bits(ob->value(), model), "VALUE", "%s: value() = %s, model %s", when, show(ob->value()).c_str(), show(model).c_str());
        VF_CHECK(same_bits(**ob, model), "VALUE", "%s: operator*() differs from the model", when);
        if (notified) saw_change = true; else saw_nochange = true;
        if (live_count() >= 2 && saw_change && saw_nochange) two_subs_both = true;
    }

    template <class MakeOperand, class Big> void run(const Case &c, T init, Eq e, MakeOperand operand, Big too_big) {
        eq = e; model = init;
        if constexpr (std::is_same_v<Obs, Observable<T>>) ob = std::make_unique<Obs>(init); else ob = std::make_unique<Obs>(init, e);
        int opno = 0;
        constexpr bool isstr = std::is_same_v<T, std::string>;
        for (const Op &o : c.ops) {
            ++opno;
            if (o.k < 0 || o.k >= NK) { count_skipped(); continue; }
            char when[96]; snprintf(when, sizeof when, "after op %d (%s a=%d b=%d)", opno, kname[o.k], o.a, o.b);
            note("op %d: %s a=%d b=%d  (value %s)", opno, kname[o.k], o.a, o.b, show(model).c_str());
            T x = operand(o.a, o.b);
            T old = model;
            bool done = true;
            if (!isstr && too_big(model) && o.k != ASSIGN && o.k != ASSIGN_OTHER_TYPE && o.k != SUBSCRIBE && o.k != UNSUBSCRIBE && o.k != ASSIGN_SAME && o.k != APPLY_SET && o.k != APPLY_NOOP) { count_skipped(); continue; }
            switch (o.k) {
            case ASSIGN: case ASSIGN_SAME: {
                if (o.k == ASSIGN_SAME) x = model;
                bool changes = !eq(model, x);
                switch ((unsigned)o.c % 3) {                        // lvalue, temporary, std::move'd
                case 0: *ob = x; break;
                case 1: *ob = T(x); label("assign_rvalue"); break;
                default: { T tmp = x; *ob = std::move(tmp); label("assign_rvalue"); break; }
                }
                if (changes) model = x;                           // an Eq-equal assignment leaves the stored value untouched
                else label("assign_eq_equal");
                expect(when, changes);
                break;
            }
            case ASSIGN_OTHER_TYPE: {
                // assignment from a value of ANOTHER type: "changes the held value" is decided on the value converted to T
                // (std::equal_to<T> / the user's Eq take const T&), and that converted value is what gets stored and sent
                T conv;
                if constexpr (std::is_same_v<T, long>) {
                    double d = (double)model + (((unsigned)o.b % 4) == 0 ? 0.0 : ((unsigned)o.b % 4) == 1 ? 0.75 : ((unsigned)o.b % 4) == 2 ? -0.25 : 1.5);
                    if (o.c & 1) { float f = (float)d; conv = static_cast<long>(f); *ob = f; } else { conv = static_cast<long>(d); *ob = d; }
                } else if constexpr (std::is_same_v<T, double>) {
                    if (o.c & 1) { int iv = (std::fabs(model) < 1e6 ? (int)model : 0) + (int)((unsigned)o.b % 3) - 1; conv = static_cast<double>(iv); *ob = iv; }
                    else { float f = (float)(model + x); conv = static_cast<double>(f); *ob = f; }
                } else {
                    const char *lit = (o.b & 1) ? "baz" : "";
                    if (o.c & 1) { conv = std::string(lit); *ob = lit; } else { std::string_view sv(lit); conv = std::string(sv); *ob = std::string(sv); }
                }
                bool changes = !eq(model, conv);
                if (changes) model = conv;
                label("assign_other_type");
                expect(when, changes);
                break;
            }
            case ADD: if constexpr (true) { *ob += x; model += x; expect(when, !eq(old, model)); } break;
            case SUB: if constexpr (!isstr) { *ob -= x; model -= x; expect(when, !eq(old, model)); } else done = false; break;
            case MUL: if constexpr (!isstr) { *ob *= x; model *= x; expect(when, !eq(old, model)); } else done = false; break;
            case DIV: if constexpr (!isstr) { if (x == T{}) { done = false; break; } *ob /= x; model /= x; expect(when, !eq(old, model)); } else done = false; break;
            case PRE_INC: if constexpr (!isstr) { T &r = ++*ob; ++model; VF_CHECK(&r == &ob->value(), "RETURN", "%s: ++x does not return a reference to the value", when); expect(when, true); } else done = false; break;
            case POST_INC: if constexpr (!isstr) { T r = (*ob)++; ++model; VF_CHECK(same_bits(r, old), "RETURN", "%s: x++ returned %s, the old value is %s", when, show(r).c_str(), show(old).c_str()); expect(when, true); } else done = false; break;
            case PRE_DEC: if constexpr (!isstr) { T &r = --*ob; --model; VF_CHECK(&r == &ob->value(), "RETURN", "%s: --x does not return a reference to the value", when); expect(when, true); } else done = false; break;
            case POST_DEC: if constexpr (!isstr) { T r = (*ob)--; --model; VF_CHECK(same_bits(r, old), "RETURN", "%s: x-- returned %s, the old value is %s", when, show(r).c_str(), show(old).c_str()); expect(when, true); } else done = false; break;
            case APPLY_SET: ob->apply([&](T &v) { v = x; }); model = x; expect(when, !eq(old, model)); break;
            case APPLY_ADD: ob->apply([&](T &v) { v += x; }); model += x; expect(when, !eq(old, model)); break;
            case APPLY_NOOP: ob->apply([](T &) {}); expect(when, false); break;
            case SUBSCRIBE: if (subs.size() < 6) { add_sub(o.a); expect(when, false); saw_nochange = saw_nochange; } else done = false; break;
            case UNSUBSCRIBE: {
                if (subs.empty()) { done = false; break; }
                SubRec &s = *subs[(size_t)((unsigned)o.a % subs.size())];
                if (!s.live) { done = false; break; }
                s.sub.unsubscribe(); s.live = false;
                break;
            }
            }
            if (done) count_ops(); else count_skipped();
        }
        // with the default equality a recording subscriber always holds value(): covered per op above (value carried == value()).
        if (two_subs_both) nontrivial();
        if (saw_change) label("changing_op"); if (saw_nochange) label("non_changing_op");
        label_n("subscribers", (long)subs.size());
    }
};

} // namespace

void run_c16(const Case &c) {
    int type = (unsigned)hget(c, 0, 0) % 3;
    int init = hget(c, 1, 0);
    if (type == 0) {
        label("type_long");
        Runner<long, std::equal_to<long>, Observable<long>> r;
        r.run(c, (long)(init % 20 - 10), std::equal_to<long>{}, [](int a, int) { return (long)(a % 13 - 6); }, [](long v) { return std::labs(v) > 1000000000000L; });
    } else if (type == 1) {
        label("type_double_neareq");
        static const double epss[] = {1e-9, 0.01, 0.5, 2.5};
        NearEq e{epss[(unsigned)hget(c, 2, 0) % 4]};
        static const double steps[] = {0.0, 1e-12, 0.004, 0.3, 1.0, 2.0, 3.5, -0.25, -1.0, 0.5};
        Runner<double, NearEq> r;
        r.run(c, (double)(init % 20 - 10) * 0.5, e, [](int a, int) { return steps[(unsigned)a % 10]; }, [](double v) { return std::fabs(v) > 1e12; });
    } else {
        label("type_string");
        static const char *words[] = {"", "a", "foo", "a string that is clearly longer than the small-string buffer", "baz"};
        Runner<std::string, std::equal_to<std::string>, Observable<std::string>> r;
        r.run(c, std::string(words[(unsigned)init % 5]), std::equal_to<std::string>{}, [](int a, int) { return std::string(words[(unsigned)a % 5]); }, [](const std::string &) { return false; });
    }
}

} // namespace vf
