// C16: Observable notifies exactly on change, with the new value.
// Oracle: reference model (value, equality) computed with the same C++ arithmetic; per op and per live subscriber
// the exact number of notifications (0 or 1) and the value carried.
#include "../../engine/common/exec.h"

#include <tulz/observer/Observable.h>

#include <cmath>
#include <cstring>
#include <memory>
#include <string>
#include <string_view>
#include <vector>

using namespace tulz;

namespace vf {
namespace {

enum K { ASSIGN = 0, ADD, SUB, MUL, DIV, PRE_INC, POST_INC, PRE_DEC, POST_DEC, APPLY_SET, APPLY_ADD, APPLY_NOOP, SUBSCRIBE, UNSUBSCRIBE, ASSIGN_SAME, ASSIGN_OTHER_TYPE, SUBSCRIBE_CLAMP, NK };
const char *kname[] = {"=", "+=", "-=", "*=", "/=", "++x", "x++", "--x", "x--", "apply(set)", "apply(add)", "apply(no-op)", "subscribe", "unsubscribe", "=(current value)", "=(value of another type)", "subscribe(clamping subscriber)"};

struct NearEq {
    double eps;
    bool operator()(const double &a, const double &b) const { return std::fabs(a - b) < eps; }
};

template <class T> std::string show(const T &v) { return std::to_string(v); }
template <> std::string show<std::string>(const std::string &v) { return "\"" + v + "\""; }
template <class T> bool same_bits(const T &a, const T &b) { return std::memcmp(&a, &b, sizeof(T)) == 0; }
template <> bool same_bits<std::string>(const std::string &a, const std::string &b) { return a == b; }

// ObsT: for long and std::string the Observable is instantiated with its DEFAULT equality, as users write it
template <class T, class Eq, class ObsT = Observable<T, Eq>> struct Runner {
    using Obs = ObsT;
    // the handle type is whatever subscribe() returns; T& subscribers are used when the Observable accepts them (it does today)
    using SubT = decltype(std::declval<Obs &>().subscribe([](const T &) {}));
    static constexpr bool accepts_mutable_ref = requires(Obs &o) { o.subscribe([](T &) {}); };
    struct SubRec { SubT sub; std::vector<T> got; int flavour; bool live = true; bool clamp = false; T bound{}; };
    std::unique_ptr<Obs> ob;
    Eq eq;
    T model;
    std::vector<std::unique_ptr<SubRec>> subs;
    bool saw_change = false, saw_nochange = false, two_subs_both = false, clamp_fired = false;

    size_t live_count() { size_t n = 0; for (auto &s : subs) n += s->live; return n; }

    void add_sub(int flavour) {
        auto r = std::make_unique<SubRec>(); r->flavour = flavour % 3;
        SubRec *p = r.get();
        if constexpr (!accepts_mutable_ref) { if (r->flavour == 0) r->flavour = 1; }
        if (r->flavour == 0) { if constexpr (accepts_mutable_ref) r->sub = ob->subscribe([p](T &v) { p->got.push_back(v); }); }
        else if (r->flavour == 1) r->sub = ob->subscribe([p](const T &v) { p->got.push_back(v); });
        else r->sub = ob->subscribe([p](T v) { p->got.push_back(v); });
        subs.push_back(std::move(r));
    }

    // a subscriber that writes back into the Observable from its callback (a clamp): "if (bound < v) observable = bound"
    void add_clamp(const T &bound) {
        auto r = std::make_unique<SubRec>(); r->flavour = 3; r->clamp = true; r->bound = bound;
        SubRec *p = r.get(); Obs *o = ob.get();
        r->sub = ob->subscribe([p, o](const T &v) { p->got.push_back(v); if (p->bound < v) *o = p->bound; });
        subs.push_back(std::move(r));
    }

    // a notifying op moved the value to `model`; live clamping subscribers then pull it down to the smallest bound below it.
    // Returns true if a clamp fired (the model is updated to the final value).
    bool settle_clamps() {
        bool fired = false;
        for (auto &s : subs) if (s->live && s->clamp && s->bound < model) { model = s->bound; fired = true; }
        return fired;
    }

    // after a notifying op during which a clamp wrote back: nested rounds happened, so the counts are not fixed, but every live
    // subscriber was notified and the LAST value each of them received is the current value() (the property's closing clause)
    void expect_after_clamp(const char *when) {
        for (size_t i = 0; i < subs.size(); ++i) {
            SubRec &s = *subs[i];
            if (!s.live) { VF_CHECK(s.got.empty(), "NOTIFY", "%s: unsubscribed subscriber %zu was notified", when, i); continue; }
            VF_CHECK(!s.got.empty(), "NOTIFY", "%s: subscriber %zu received no notification although the value changed (value now %s)", when, i, show(model).c_str());
            VF_CHECK(same_bits(s.got.back(), model), "NOTIFY", "%s: a subscriber wrote back into the Observable during the round; subscriber %zu last received %s but value() is %s", when, i, show(s.got.back()).c_str(), show(model).c_str());
            s.got.clear();
        }
        VF_CHECK(same_bits(ob->value(), model), "VALUE", "%s: value() = %s, model %s", when, show(ob->value()).c_str(), show(model).c_str());
        label("clamp_fired"); clamp_fired = true;
        saw_change = true;
    }

    // after an op: every live subscriber got exactly `expectN` notifications carrying the post-op value
    void expect(const char *when, bool notified) {
        if (notified && settle_clamps()) { expect_after_clamp(when); return; }
        for (size_t i = 0; i < subs.size(); ++i) {
            SubRec &s = *subs[i];
            size_t want = (s.live && notified) ? 1 : 0;
            VF_CHECK(s.got.size() == want, "NOTIFY", "%s: subscriber %zu received %zu notifications, expected %zu (value now %s)", when, i, s.got.size(), want, show(model).c_str());
            if (want) VF_CHECK(same_bits(s.got[0], model), "NOTIFY", "%s: subscriber %zu was notified with %s, the post-operation value is %s", when, i, show(s.got[0]).c_str(), show(model).c_str());
            s.got.clear();
        }
        VF_CHECK(same_bits(ob->value(), model), "VALUE", "%s: value() = %s, model %s", when, show(ob->value()).c_str(), show(model).c_str());
        VF_CHECK(same_bits(**ob, model), "VALUE", "%s: operator*() differs from the model", when);
        if (notified) saw_change = true; else saw_nochange = true;
        if (live_count() >= 2 && saw_change && saw_nochange) two_subs_both = true;
    }

    template <class MakeOperand, class Big> void run(const Case &c, T init, Eq e, MakeOperand operand, Big too_big) {
        eq = e; model = init;
        if constexpr (std::is_same_v<Obs, Observable<T>>) ob = std::make_unique<Obs>(init); else ob = std::make_unique<Obs>(init, e);
        int opno = 0;
        constexpr bool isstr = std::is_same_v<T, std::string>;
        for (const Op &o : c.ops) {
            ++opno;
            if (o.k < 0 || o.k >= NK) { count_skipped(); continue; }
            char when[96]; snprintf(when, sizeof when, "after op %d (%s a=%d b=%d)", opno, kname[o.k], o.a, o.b);
            note("op %d: %s a=%d b=%d  (value %s)", opno, kname[o.k], o.a, o.b, show(model).c_str());
            T x = operand(o.a, o.b);
            T old = model;
            bool done = true;
            if (!isstr && too_big(model) && o.k != ASSIGN && o.k != ASSIGN_OTHER_TYPE && o.k != SUBSCRIBE && o.k != SUBSCRIBE_CLAMP && o.k != UNSUBSCRIBE && o.k != ASSIGN_SAME && o.k != APPLY_SET && o.k != APPLY_NOOP) { count_skipped(); continue; }
            switch (o.k) {
            case ASSIGN: case ASSIGN_SAME: {
                if (o.k == ASSIGN_SAME) x = model;
                bool changes = !eq(model, x);
                switch ((unsigned)o.c % 3) {                        // lvalue, temporary, std::move'd
                case 0: *ob = x; break;
                case 1: *ob = T(x); label("assign_rvalue"); break;
                default: { T tmp = x; *ob = std::move(tmp); label("assign_rvalue"); break; }
                }
                if (changes) model = x;                           // an Eq-equal assignment leaves the stored value untouched
                else label("assign_eq_equal");
                expect(when, changes);
                break;
            }
            case ASSIGN_OTHER_TYPE: {
                // assignment from a value of ANOTHER type: "changes the held value" is decided on the value converted to T
                // (std::equal_to<T> / the user's Eq take const T&), and that converted value is what gets stored and sent
                T conv;
                if constexpr (std::is_same_v<T, long>) {
                    double d = (double)model + (((unsigned)o.b % 4) == 0 ? 0.0 : ((unsigned)o.b % 4) == 1 ? 0.75 : ((unsigned)o.b % 4) == 2 ? -0.25 : 1.5);
                    if (o.c & 1) { float f = (float)d; conv = static_cast<long>(f); *ob = f; } else { conv = static_cast<long>(d); *ob = d; }
                } else if constexpr (std::is_same_v<T, unsigned char>) {
                    // an int that differs from the held value by a multiple of 256 (or not): the decision is made on the converted value
                    int iv = (int)model + (((unsigned)o.b % 4) == 0 ? 256 : ((unsigned)o.b % 4) == 1 ? -256 : ((unsigned)o.b % 4) == 2 ? 3 : 0);
                    if (o.c & 1) { long long w = (long long)iv + 65536; conv = static_cast<unsigned char>(w); *ob = w; } else { conv = static_cast<unsigned char>(iv); *ob = iv; }
                } else if constexpr (std::is_same_v<T, int>) {
                    long long w = (long long)model + (((unsigned)o.b % 3) == 0 ? 4294967296LL : ((unsigned)o.b % 3) == 1 ? 0LL : 2LL);
                    if (o.c & 1) { double d = (double)model + (((unsigned)o.b % 3) == 0 ? 0.75 : ((unsigned)o.b % 3) == 1 ? -0.5 : 1.0); conv = static_cast<int>(d); *ob = d; }
                    else { conv = static_cast<int>(w); *ob = w; }
                } else if constexpr (std::is_same_v<T, float>) {
                    double d = (double)model + (((unsigned)o.b % 3) == 0 ? 1e-12 : ((unsigned)o.b % 3) == 1 ? 0.3 : 0.0);
                    if (o.c & 1) { int iv = (std::fabs(model) < 1e6f ? (int)model : 0) + (int)((unsigned)o.b % 3) - 1; conv = static_cast<float>(iv); *ob = iv; }
                    else { conv = static_cast<float>(d); *ob = d; }
                } else if constexpr (std::is_same_v<T, double>) {
                    if (o.c & 1) { int iv = (std::fabs(model) < 1e6 ? (int)model : 0) + (int)((unsigned)o.b % 3) - 1; conv = static_cast<double>(iv); *ob = iv; }
                    else { float f = (float)(model + x); conv = static_cast<double>(f); *ob = f; }
                } else {
                    const char *lit = (o.b & 1) ? "baz" : "";
                    if (o.c & 1) { conv = std::string(lit); *ob = lit; } else { std::string_view sv(lit); conv = std::string(sv); *ob = std::string(sv); }
                }
                bool changes = !eq(model, conv);
                if (changes) model = conv;
                label("assign_other_type");
                expect(when, changes);
                break;
            }
            case ADD: if constexpr (true) { *ob += x; model += x; expect(when, !eq(old, model)); } break;
            case SUB: if constexpr (!isstr) { *ob -= x; model -= x; expect(when, !eq(old, model)); } else done = false; break;
            case MUL: if constexpr (!isstr) { *ob *= x; model *= x; expect(when, !eq(old, model)); } else done = false; break;
            case DIV: if constexpr (!isstr) { if (x == T{}) { done = false; break; } *ob /= x; model /= x; expect(when, !eq(old, model)); } else done = false; break;
            case PRE_INC: if constexpr (!isstr) { T &r = ++*ob; ++model; VF_CHECK(&r == &ob->value(), "RETURN", "%s: ++x does not return a reference to the value", when); expect(when, true); } else done = false; break;
            case POST_INC: if constexpr (!isstr) { T r = (*ob)++; ++model; VF_CHECK(same_bits(r, old), "RETURN", "%s: x++ returned %s, the old value is %s", when, show(r).c_str(), show(old).c_str()); expect(when, true); } else done = false; break;
            case PRE_DEC: if constexpr (!isstr) { T &r = --*ob; --model; VF_CHECK(&r == &ob->value(), "RETURN", "%s: --x does not return a reference to the value", when); expect(when, true); } else done = false; break;
            case POST_DEC: if constexpr (!isstr) { T r = (*ob)--; --model; VF_CHECK(same_bits(r, old), "RETURN", "%s: x-- returned %s, the old value is %s", when, show(r).c_str(), show(old).c_str()); expect(when, true); } else done = false; break;
            case APPLY_SET: ob->apply([&](T &v) { v = x; }); model = x; expect(when, !eq(old, model)); break;
            case APPLY_ADD: ob->apply([&](T &v) { v += x; }); model += x; expect(when, !eq(old, model)); break;
            case APPLY_NOOP: ob->apply([](T &) {}); expect(when, false); break;
            case SUBSCRIBE: if (subs.size() < 6) { add_sub(o.a); expect(when, false); saw_nochange = saw_nochange; } else done = false; break;
            case SUBSCRIBE_CLAMP:
                // only with the default equality (the closing clause of the property speaks of it)
                if constexpr (std::is_same_v<Obs, Observable<T>>) { if (subs.size() < 6) { add_clamp(x); expect(when, false); } else done = false; } else done = false;
                break;
            case UNSUBSCRIBE: {
                if (subs.empty()) { done = false; break; }
                SubRec &s = *subs[(size_t)((unsigned)o.a % subs.size())];
                if (!s.live) { done = false; break; }
                s.sub.unsubscribe(); s.live = false;
                break;
            }
            }
            if (done) count_ops(); else count_skipped();
        }
        // with the default equality a recording subscriber always holds value(): covered per op above (value carried == value()).
        if (two_subs_both) nontrivial();
        if (saw_change) label("changing_op"); if (saw_nochange) label("non_changing_op");
        label_n("subscribers", (long)subs.size());
    }
};

} // namespace

void run_c16(const Case &c) {
    int type = (unsigned)hget(c, 0, 0) % 6;
    int init = hget(c, 1, 0);
    if (type == 0) {
        label("type_long");
        Runner<long, std::equal_to<long>, Observable<long>> r;
        r.run(c, (long)(init % 20 - 10), std::equal_to<long>{}, [](int a, int) { return (long)(a % 13 - 6); }, [](long v) { return std::labs(v) > 1000000000000L; });
    } else if (type == 1) {
        label("type_double_neareq");
        static const double epss[] = {1e-9, 0.01, 0.5, 2.5};
        NearEq e{epss[(unsigned)hget(c, 2, 0) % 4]};
        static const double steps[] = {0.0, 1e-12, 0.004, 0.3, 1.0, 2.0, 3.5, -0.25, -1.0, 0.5};
        Runner<double, NearEq> r;
        r.run(c, (double)(init % 20 - 10) * 0.5, e, [](int a, int) { return steps[(unsigned)a % 10]; }, [](double v) { return std::fabs(v) > 1e12; });
    } else if (type == 3) {
        // a narrow unsigned integer with the default equality: compound operators promote to int and wrap modulo 256
        label("type_uchar");
        Runner<unsigned char, std::equal_to<unsigned char>, Observable<unsigned char>> r;
        static const unsigned char vals[] = {0, 1, 2, 3, 5, 16, 100, 128, 200, 255};
        r.run(c, (unsigned char)(init * 7), std::equal_to<unsigned char>{}, [](int a, int) { return vals[(unsigned)a % 10]; }, [](unsigned char) { return false; });
    } else if (type == 4) {
        label("type_float_neareq");
        struct NearEqF { float eps; bool operator()(const float &a, const float &b) const { return std::fabs(a - b) < eps; } };
        static const float epss[] = {1e-6f, 0.01f, 0.5f, 2.5f};
        static const float steps[] = {0.0f, 1e-9f, 0.004f, 0.3f, 1.0f, 2.0f, 3.5f, -0.25f, -1.0f, 0.5f};
        Runner<float, NearEqF> r;
        r.run(c, (float)(init % 20 - 10) * 0.5f, NearEqF{epss[(unsigned)hget(c, 2, 0) % 4]}, [](int a, int) { return steps[(unsigned)a % 10]; }, [](float v) { return std::fabs(v) > 1e12f; });
    } else if (type == 5) {
        label("type_int");
        Runner<int, std::equal_to<int>, Observable<int>> r;
        r.run(c, init % 20 - 10, std::equal_to<int>{}, [](int a, int) { return a % 13 - 6; }, [](int v) { return std::abs(v) > 100000000; });
    } else {
        label("type_string");
        static const char *words[] = {"", "a", "foo", "a string that is clearly longer than the small-string buffer", "baz"};
        Runner<std::string, std::equal_to<std::string>, Observable<std::string>> r;
        r.run(c, std::string(words[(unsigned)init % 5]), std::equal_to<std::string>{}, [](int a, int) { return std::string(words[(unsigned)a % 5]); }, [](const std::string &) { return false; });
    }
}

} // namespace vf
