// C05: Subject delivers to exactly the live, unmuted observers, in subscription order, with the passed values.
// Oracle: ordered reference model of subscriptions (id, muted, valid) + sentinel-tracked observer lifetimes.
#include "../../engine/common/exec.h"

#include <tulz/observer/Subject.h>

#include <memory>
#include <string>
#include <vector>

using namespace tulz;

namespace vf {
namespace {

enum K { SUB_PLAIN = 0, SUB_SELFVIEW, SUB_UNIQUE_PTR, H_UNSUB, S_UNSUB, MUTE, UNMUTE, INVALIDATE, SELF_INVALIDATE_NEXT, H_MOVE_CONSTRUCT, H_MOVE_ASSIGN,
         NOTIFY, FOREIGN_UNSUB, PROBE, NK };
const char *kname[] = {"subscribe", "subscribe_selfview", "subscribe_unique_ptr", "handle.unsubscribe", "subject.unsubscribe", "mute", "unmute", "invalidate",
                       "self_invalidate_on_next_call", "handle_move_construct", "handle_move_assign", "notify", "foreign_unsubscribe", "probe"};

struct Ctx {
    std::vector<std::pair<int, std::string>> log;   // (observer id, rendered arguments)
    std::vector<int> sentinel;                      // live copies of the callable of observer id
    std::vector<bool> self_inval;                   // observer id invalidates itself (SelfView) when invoked next
};
Ctx *g;

// counts the copies of one observer's callable; the copy inside the Observer's std::function is "the observer"
struct Sentinel {
    int id;
    explicit Sentinel(int i) : id(i) { ++g->sentinel[(size_t)id]; }
    Sentinel(const Sentinel &o) : id(o.id) { ++g->sentinel[(size_t)id]; }
    Sentinel(Sentinel &&o) noexcept : id(o.id) { ++g->sentinel[(size_t)id]; }
    ~Sentinel() { --g->sentinel[(size_t)id]; }
};

std::string render() { return ""; }
std::string render(int v) { return std::to_string(v); }
std::string render(const std::string &s) { return "\"" + s + "\""; }
std::string render(int v, const std::string &s) { return std::to_string(v) + ",\"" + s + "\""; }

// signature traits: how to build argument values from a seed, how to notify
template <class... Args> struct Sig;
template <> struct Sig<> {
    static constexpr const char *name = "sig_void";
    static std::string call(Subject<> &s, int) { s.notify(); return render(); }
};
template <> struct Sig<int> {
    static constexpr const char *name = "sig_int";
    static std::string call(Subject<int> &s, int seed) { int v = seed * 7919 - 3; s.notify(v); return render(v); }
};
std::string mkstr(int seed) {
    static const char *parts[] = {"", "a", "hello", "a fairly long string that does not fit the small string buffer at all", "x\0y"};
    std::string s = parts[(unsigned)seed % 5];
    if (seed % 5 == 4) s = std::string("x\0y", 3);
    return s + std::to_string(seed);
}
template <> struct Sig<const std::string &> {
    static constexpr const char *name = "sig_const_string_ref";
    static std::string call(Subject<const std::string &> &s, int seed) { std::string v = mkstr(seed); s.notify(v); return render(v); }
};
template <> struct Sig<std::string> {
    static constexpr const char *name = "sig_string_by_value";
    static std::string call(Subject<std::string> &s, int seed) { std::string v = mkstr(seed); s.notify(v); return render(v); }
};
template <> struct Sig<int, const std::string &> {
    static constexpr const char *name = "sig_int_and_const_string_ref";
    static std::string call(Subject<int, const std::string &> &s, int seed) { std::string v = mkstr(seed); s.notify(seed, v); return render(seed, v); }
};

struct MRec { int id; bool muted = false, valid = true, subscribed = true, selfview = false, pending_self = false; };

template <class... Args> struct Runner {
    using Subj = Subject<Args...>;
    using Sub = Subscription<Args...>;
    using Obs = Observer<Args...>;
    struct Handle {                               // id: model observer this handle refers to (-1: empty handle)
        Sub sub; int id = -1;
        Handle() = default;
        explicit Handle(Sub &&s) : sub(std::move(s)) {}   // Subscription's move constructor (swap semantics)
    };

    std::unique_ptr<Subj> subject = std::make_unique<Subj>();
    Subj other;                                      // a second Subject for foreign handles
    Sub foreignSub; int foreignCalls = 0;
    std::vector<MRec> model;                         // subscription order
    std::vector<std::unique_ptr<Handle>> handles;
    Ctx ctx;

    MRec *rec(int id) { for (auto &m : model) if (m.id == id) return &m; return nullptr; }

    void check_state(const char *when) {
        for (auto &h : handles) {
            bool v = h->sub.isValid();
            MRec *m = h->id >= 0 ? rec(h->id) : nullptr;
            bool subscribed = m && m->subscribed;
            if (subscribed && !m->valid) continue;   // invalidated, not yet lazily removed: validity of the handle is left open
            if (!subscribed) VF_CHECK(!v, "HANDLE", "%s: handle of observer %d reports isValid() although the observer is no longer subscribed", when, h->id);
            else {
                VF_CHECK(v, "HANDLE", "%s: handle of subscribed observer %d reports isValid() == false", when, h->id);
                VF_CHECK(h->sub.isMuted() == m->muted, "HANDLE", "%s: handle of observer %d reports isMuted() = %d, model %d", when, h->id, (int)h->sub.isMuted(), (int)m->muted);
                VF_CHECK(h->sub.getSubject() == subject.get(), "HANDLE", "%s: getSubject() of a valid handle is not the subject", when);
                VF_CHECK(h->sub.getObserver()->isValid() == m->valid, "HANDLE", "%s: observer %d validity flag %d, model %d", when, h->id, (int)h->sub.getObserver()->isValid(), (int)m->valid);
            }
        }
        for (auto &m : model) {
            int live = ctx.sentinel[(size_t)m.id];
            if (m.subscribed) VF_CHECK(live == 1, "LIFETIME", "%s: observer %d is subscribed but %d copies of its callable are alive (expected exactly 1)", when, m.id, live);
            else VF_CHECK(live == 0, "LIFETIME", "%s: observer %d was removed but %d copies of its callable are still alive", when, m.id, live);
        }
        bool any = false; for (auto &m : model) any |= m.subscribed;
        VF_CHECK(subject->hasSubscriptions() == any, "HANDLE", "%s: hasSubscriptions() = %d, model %d", when, (int)subject->hasSubscriptions(), (int)any);
        VF_CHECK(foreignSub.isValid(), "FOREIGN", "%s: the subscription on the other Subject stopped being valid", when);
    }

    int new_observer(int kind) {
        int id = (int)model.size();
        ctx.sentinel.push_back(0); ctx.self_inval.push_back(false);
        auto h = std::make_unique<Handle>();
        Ctx *cp = &ctx;
        if (kind == SUB_PLAIN) {
            h->sub = subject->subscribe([cp, id, s = Sentinel(id)](Args... a) { Ctx *c = cp; int i = id; c->log.emplace_back(i, render(a...)); });
        } else if (kind == SUB_SELFVIEW) {
            h->sub = subject->subscribe([cp, id, s = Sentinel(id)](typename Obs::SelfView self, Args... a) {
                Ctx *c = cp; int i = id;
                c->log.emplace_back(i, render(a...));
                if (c->self_inval[(size_t)i]) { c->self_inval[(size_t)i] = false; self->invalidate(); }
            });
        } else if (id % 2 == 0) {
            auto up = std::make_unique<EternalObserver<Args...>>([cp, id, s = Sentinel(id)](Args... a) { Ctx *c = cp; int i = id; c->log.emplace_back(i, render(a...)); });
            h->sub = subject->subscribe(std::move(up));
        } else {
            // raw pointer to a derived observer: ownership passes to the Subject; the callable is installed with Observer::operator=(Func)
            auto *raw = new EternalObserver<Args...>([](Args...) {});
            *static_cast<Observer<Args...> *>(raw) = typename Observer<Args...>::Func([cp, id, s = Sentinel(id)](Args... a) { Ctx *c = cp; int i = id; c->log.emplace_back(i, render(a...)); });
            h->sub = subject->subscribe(raw);
        }
        h->id = id;
        handles.push_back(std::move(h));
        model.push_back(MRec{id});
        model.back().selfview = kind == SUB_SELFVIEW;
        return id;
    }

    void run(const Case &c) {
        g = &ctx;
        label(Sig<Args...>::name);
        ctx.sentinel.reserve(c.ops.size() + 8);
        foreignSub = other.subscribe([this](Args...) { ++foreignCalls; });
        // "crowd": some cases start with many observers already subscribed (thresholds inside containers only show then)
        static const int crowd[8] = {0, 0, 0, 0, 6, 18, 35, 70};
        const int initial = crowd[(unsigned)hget(c, 1, 0) % 8];
        const size_t maxObservers = (size_t)initial + 40;
        ctx.sentinel.reserve(c.ops.size() + 8 + (size_t)initial);
        for (int i = 0; i < initial; ++i) new_observer(i % 3 == 0 ? SUB_SELFVIEW : i % 3 == 1 ? SUB_PLAIN : SUB_UNIQUE_PTR);
        if (initial >= 18) label("crowd_over_16"); if (initial >= 35) label("crowd_over_32");
        int opno = 0, notifies = 0;
        bool changing = false;
        for (const Op &o : c.ops) {
            ++opno;
            if (o.k < 0 || o.k >= NK) { count_skipped(); continue; }
            char when[80]; snprintf(when, sizeof when, "after op %d (%s a=%d b=%d)", opno, kname[o.k], o.a, o.b);
            note("op %d: %s a=%d b=%d", opno, kname[o.k], o.a, o.b);
            Handle *h = handles.empty() ? nullptr : handles[(size_t)((unsigned)o.a % handles.size())].get();
            MRec *m = (h && h->id >= 0) ? rec(h->id) : nullptr;
            bool live = m && m->subscribed;          // every real caller checks isValid() before using a handle
            bool done = true;
            switch (o.k) {
            case SUB_PLAIN: case SUB_SELFVIEW: case SUB_UNIQUE_PTR: if (model.size() < maxObservers) new_observer(o.k); else done = false; break;
            case H_UNSUB:
                if (!live) { done = false; break; }
                h->sub.unsubscribe(); m->subscribed = false; changing = true;
                VF_CHECK(h->sub.getSubject() == nullptr && h->sub.getObserver() == nullptr, "HANDLE", "%s: unsubscribe() did not clear the handle", when);
                break;
            case S_UNSUB: {
                if (!h) { done = false; break; }
                bool threw = false;
                try { subject->unsubscribe(h->sub); } catch (const std::invalid_argument &) { threw = true; }
                if (live) { VF_CHECK(!threw, "REJECT", "%s: unsubscribing a valid handle threw", when); m->subscribed = false; changing = true; label("subject_unsubscribe_valid"); }
                else { VF_CHECK(threw, "REJECT", "%s: unsubscribing a stale handle (observer %d) was not rejected with std::invalid_argument", when, h->id); label("stale_handle_rejected"); }
                break;
            }
            case FOREIGN_UNSUB: {
                bool threw = false;
                try { subject->unsubscribe(foreignSub); } catch (const std::invalid_argument &) { threw = true; }
                VF_CHECK(threw, "REJECT", "%s: unsubscribing a handle of another Subject was not rejected", when);
                label("foreign_handle_rejected");
                break;
            }
            case MUTE: if (!live) { done = false; break; } h->sub.mute(); m->muted = true; changing = true; break;
            case UNMUTE: if (!live) { done = false; break; } h->sub.unmute(); m->muted = false; break;
            case INVALIDATE: if (!live) { done = false; break; } h->sub.getObserver()->invalidate(); m->valid = false; changing = true; break;
            case SELF_INVALIDATE_NEXT: if (!live || !m->selfview || !m->valid) { done = false; break; } ctx.self_inval[(size_t)m->id] = true; m->pending_self = true; break;
            case H_MOVE_CONSTRUCT: {
                if (!h) { done = false; break; }
                auto n = std::make_unique<Handle>(std::move(h->sub));   // the source becomes an empty handle
                n->id = h->id; h->id = -1;
                handles.push_back(std::move(n));
                break;
            }
            case H_MOVE_ASSIGN: {
                if (!h) { done = false; break; }
                Handle *t = handles[(size_t)((unsigned)o.b % handles.size())].get();
                t->sub = std::move(h->sub);                 // implemented as a swap (self-assignment is a no-op)
                if (t != h) std::swap(t->id, h->id);
                break;
            }
            case NOTIFY: {
                ctx.log.clear();
                size_t nsub = 0; bool special = false;
                for (auto &r : model) { if (r.subscribed) { ++nsub; special |= r.muted || !r.valid; } else special = true; }
                std::string args = Sig<Args...>::call(*subject, o.b * 31 + notifies);
                ++notifies;
                // expectation: each subscribed, valid, unmuted observer once, in subscription order, exact arguments
                std::vector<std::pair<int, std::string>> expect;
                for (auto &r : model) if (r.subscribed && !r.muted && r.valid) expect.emplace_back(r.id, args);
                VF_CHECK(ctx.log.size() == expect.size(), "DELIVERY", "%s: %zu observers were invoked, expected %zu", when, ctx.log.size(), expect.size());
                for (size_t i = 0; i < expect.size(); ++i) {
                    VF_CHECK(ctx.log[i].first == expect[i].first, "DELIVERY", "%s: call %zu went to observer %d, expected observer %d (subscription order)", when, i, ctx.log[i].first, expect[i].first);
                    VF_CHECK(ctx.log[i].second == expect[i].second, "DELIVERY", "%s: observer %d received (%s), passed (%s)", when, expect[i].first, ctx.log[i].second.c_str(), expect[i].second.c_str());
                }
                VF_CHECK(foreignCalls == 0, "DELIVERY", "%s: an observer of another Subject was invoked", when);
                // observers that invalidated themselves during their call, and those already invalid, leave after their turn
                for (auto &r : model) {
                    if (!r.subscribed) continue;
                    if (!r.muted && r.valid && r.pending_self) { r.valid = false; r.pending_self = false; label("self_invalidate"); }
                    if (!r.valid) { r.subscribed = false; label("lazy_removal"); }
                }
                if (nsub >= 3 && special) nontrivial();
                label("notify");
                break;
            }
            case PROBE: break;
            }
            if (done) count_ops(); else count_skipped();
            check_state(when);
        }
        (void)changing;
        // destroying the Subject destroys every remaining observer exactly once
        subject.reset();
        for (auto &r : model) VF_CHECK(ctx.sentinel[(size_t)r.id] == 0, "LIFETIME", "after the Subject was destroyed %d copies of observer %d's callable are still alive", ctx.sentinel[(size_t)r.id], r.id);
    }
};

} // namespace

void run_c05(const Case &c) {
    switch ((unsigned)hget(c, 0, 0) % 5) {
    case 0: { Runner<> r; r.run(c); break; }
    case 1: { Runner<int> r; r.run(c); break; }
    case 2: { Runner<const std::string &> r; r.run(c); break; }
    case 3: { Runner<std::string> r; r.run(c); break; }
    default: { Runner<int, const std::string &> r; r.run(c); break; }
    }
}

} // namespace vf
