// Generators for C05 (subscription histories), C10 (re-entrant callback scripts), C16 (Observable histories).
#include "../../engine/pbt/gen.h"
using namespace vf;

namespace {
namespace c05 { enum K { SUB_PLAIN = 0, SUB_SELFVIEW, SUB_UNIQUE_PTR, H_UNSUB, S_UNSUB, MUTE, UNMUTE, INVALIDATE, SELF_INVALIDATE_NEXT, H_MOVE_CONSTRUCT, H_MOVE_ASSIGN, NOTIFY, FOREIGN_UNSUB, PROBE }; }
namespace c10 { enum A { SUBSCRIBE = 0, UNSUBSCRIBE, MUTE, UNMUTE, INVALIDATE, NESTED_NOTIFY, SELF_INVALIDATE }; }
namespace c16 { enum K { ASSIGN = 0, ADD, SUB, MUL, DIV, PRE_INC, POST_INC, PRE_DEC, POST_DEC, APPLY_SET, APPLY_ADD, APPLY_NOOP, SUBSCRIBE, UNSUBSCRIBE, ASSIGN_SAME, ASSIGN_OTHER_TYPE, SUBSCRIBE_CLAMP }; }

Register r05("C05", [](Tier t) {
    using namespace c05;
    auto ops = genOps({{SUB_PLAIN, 8, 31, 31, 0}, {SUB_SELFVIEW, 5, 31, 31, 0}, {SUB_UNIQUE_PTR, 3, 31, 31, 0}, {NOTIFY, 12, 31, 31, 0},
                       {H_UNSUB, 4, 31, 31, 0}, {S_UNSUB, 4, 31, 31, 0}, {MUTE, 4, 31, 31, 0}, {UNMUTE, 3, 31, 31, 0}, {INVALIDATE, 3, 31, 31, 0},
                       {SELF_INVALIDATE_NEXT, 3, 31, 31, 0}, {H_MOVE_CONSTRUCT, 2, 31, 31, 0}, {H_MOVE_ASSIGN, 3, 31, 31, 0}, {FOREIGN_UNSUB, 1, 0, 0, 0}},
                      t == THOROUGH ? 160 : 80);
    // h[0]: argument signature: () | (int) | (const std::string&) | (std::string) | (int, const std::string&)
    // h[1]: crowd selector (0..7 -> 0,0,0,0,6,18,35,70 observers subscribed before the history starts)
    return genCase("C05", genHeader({{0, 4}, {0, 7}}), ops);
});
Register r10("C10", [](Tier t) {
    using namespace c10;
    // op: k action, a owner observer, b target, c selects the nesting depth at which it fires (decoded by the executor)
    auto ops = genOps({{UNSUBSCRIBE, 8, 7, 255, 15}, {NESTED_NOTIFY, 7, 7, 255, 15}, {SUBSCRIBE, 5, 7, 255, 15}, {MUTE, 3, 7, 255, 15}, {UNMUTE, 2, 7, 255, 15},
                       {INVALIDATE, 4, 7, 255, 15}, {SELF_INVALIDATE, 3, 7, 255, 15}}, t == THOROUGH ? 40 : 20);
    // h[0]: initially subscribed observers - 1 (0..5), h[1]: top-level notifies - 1 (0..3)
    // h[2]: deep nesting allowed (depth < 7 instead of < 3); h[3]: crowd selector (0,0,12,36 passive observers)
    return genCase("C10", genHeader({{0, 5}, {0, 3}, {0, 1}, {0, 3}, {0, 11}}), ops);
});
Register r16("C16", [](Tier t) {
    using namespace c16;
    auto ops = genOps({{ASSIGN, 8, 40, 0, 2}, {ASSIGN_SAME, 3, 0, 0, 2}, {ASSIGN_OTHER_TYPE, 4, 40, 7, 1}, {ADD, 5, 40, 0, 0}, {SUB, 3, 40, 0, 0}, {MUL, 2, 40, 0, 0}, {DIV, 2, 40, 0, 0},
                       {PRE_INC, 2, 0, 0, 0}, {POST_INC, 2, 0, 0, 0}, {PRE_DEC, 2, 0, 0, 0}, {POST_DEC, 2, 0, 0, 0}, {APPLY_SET, 3, 40, 0, 0},
                       {APPLY_ADD, 3, 40, 0, 0}, {APPLY_NOOP, 2, 0, 0, 0}, {SUBSCRIBE, 5, 5, 0, 0}, {SUBSCRIBE_CLAMP, 2, 40, 0, 0}, {UNSUBSCRIBE, 2, 5, 0, 0}}, t == THOROUGH ? 120 : 60);
    // h[0]: value type (long | double with NearEq | std::string | unsigned char | float with NearEq | int), h[1]: initial value selector, h[2]: tolerance selector
    return genCase("C16", genHeader({{0, 5}, {0, 40}, {0, 3}}), ops);
});
} // namespace
