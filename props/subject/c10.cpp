// C10: Subject tolerates callbacks that change it during notify.
// A case = up to 8 scripted observers (the first n subscribed initially); a script is the list of ops owned by the
// observer; each action fires at most once, when its owner is invoked at the action's nesting depth.
// Oracle: a reference simulation of the notification rounds, worded as the property states them; the call logs
// (observer, depth, argument) must be equal.  ASan decides memory safety.
#include "../../engine/common/exec.h"

#include <tulz/observer/Subject.h>

#include <memory>
#include <vector>

using namespace tulz;

namespace vf {
namespace {

constexpr int U = 48;       // observer universe: 8 scripted observers + up to 40 passive ones ("crowd")
constexpr int SCRIPTED = 8;
int MAXDEPTH = 3;           // nested notify allowed while depth < MAXDEPTH (3, or 7 in deep cases)
enum A { SUBSCRIBE = 0, UNSUBSCRIBE, MUTE, UNMUTE, INVALIDATE, NESTED_NOTIFY, SELF_INVALIDATE, NA };
const char *aname[] = {"subscribe", "unsubscribe", "mute", "unmute", "invalidate", "nested_notify", "self_invalidate"};

struct Action { int kind, owner, target, depth, arg; bool fired = false; };
struct Call { int obs, depth, arg; bool operator==(const Call &o) const { return obs == o.obs && depth == o.depth && arg == o.arg; } };

// ---------------------------------------------------------------- reference simulation
struct Model {
    struct Rec { int idx; bool muted = false, valid = true; };
    std::vector<Rec> subs;               // subscription order
    bool ever[U] = {};                   // every universe index is subscribed at most once per case
    std::vector<Action> acts;
    std::vector<Call> log;
    bool removed_pending_or_self = false, subscribed_in_round = false, nt = false;
    int rounds_open = 0;

    Rec *find(int idx) { for (auto &r : subs) if (r.idx == idx) return &r; return nullptr; }
    void erase(int idx) { for (size_t i = 0; i < subs.size(); ++i) if (subs[i].idx == idx) { subs.erase(subs.begin() + (long)i); return; } }
    void subscribe(int idx) { if (ever[idx]) return; ever[idx] = true; subs.push_back(Rec{idx}); }

    void notify(int arg, int depth, std::vector<int> *called_in_outer = nullptr) {
        (void)called_in_outer;
        if (subscribed_in_round) nt = true;   // a subscribe during an earlier/outer round is followed by another notify
        std::vector<int> members;
        for (auto &r : subs) members.push_back(r.idx);          // membership fixed at entry, subscription order
        std::vector<bool> turn_done(members.size(), false);
        for (size_t mi = 0; mi < members.size(); ++mi) {
            int idx = members[mi];
            Rec *r = find(idx);
            if (!r) continue;                                    // removed before its turn: skipped
            if (!r->muted && r->valid) {
                log.push_back(Call{idx, depth, arg});
                run_script(idx, depth, members, mi);
            }
            r = find(idx);
            if (r && !r->valid) erase(idx);                      // invalid members leave after their turn
            turn_done[mi] = true;
        }
    }
    void run_script(int idx, int depth, const std::vector<int> &members, size_t mi) {
        for (size_t ai = 0; ai < acts.size(); ++ai) {
            if (acts[ai].fired || acts[ai].owner != idx || acts[ai].depth != depth) continue;
            acts[ai].fired = true;
            Action a = acts[ai];
            Rec *t = find(a.target);
            switch (a.kind) {
            case SUBSCRIBE: if (!ever[a.target]) { subscribe(a.target); subscribed_in_round = true; } break;
            case UNSUBSCRIBE:
                if (t) {
                    bool pending = false; for (size_t k = mi + 1; k < members.size(); ++k) pending |= members[k] == a.target;
                    if (pending || a.target == idx) nt = true;   // removed a not-yet-called member, or itself
                    erase(a.target);
                }
                break;
            case MUTE: if (t) t->muted = true; break;
            case UNMUTE: if (t) t->muted = false; break;
            case INVALIDATE: if (t) t->valid = false; break;
            case SELF_INVALIDATE: if (Rec *s = find(idx)) s->valid = false; break;
            case NESTED_NOTIFY: if (depth + 1 <= MAXDEPTH) notify(a.arg, depth + 1); break;
            }
            // the script goes on even if the owner unsubscribed itself: a callback may keep working after that (it just must
            // not touch its own captures), e.g. remove itself and subscribe a replacement
        }
    }
};

// ---------------------------------------------------------------- the real thing
struct Real {
    using Obs = Observer<int>;
    Subject<int> subject;
    Subscription<int> handle[U];
    bool ever[U] = {};
    std::vector<Action> acts;
    std::vector<Call> log;
    int depth = -1;

    void subscribe(int idx) {
        if (ever[idx]) return;
        ever[idx] = true;
        Real *self = this;
        handle[idx] = subject.subscribe([self, idx](Obs::SelfView view, int arg) {
            // callback discipline: copy the captures, never touch them after an action that may destroy this observer
            Real *r = self; int i = idx;
            r->invoked(i, arg, view);
        });
    }
    void invoked(int idx, int arg, Obs::SelfView view) {
        int d = depth;
        log.push_back(Call{idx, d, arg});
        for (size_t ai = 0; ai < acts.size(); ++ai) {
            if (acts[ai].fired || acts[ai].owner != idx || acts[ai].depth != d) continue;
            acts[ai].fired = true;
            Action a = acts[ai];
            Subscription<int> &t = handle[a.target];
            switch (a.kind) {
            case SUBSCRIBE: subscribe(a.target); break;
            case UNSUBSCRIBE: if (t.isValid()) t.unsubscribe(); break;
            case MUTE: if (t.isValid()) t.mute(); break;
            case UNMUTE: if (t.isValid()) t.unmute(); break;
            case INVALIDATE: if (t.isValid()) t.getObserver()->invalidate(); break;
            case SELF_INVALIDATE: if (handle[idx].isValid()) view->invalidate(); break;
            case NESTED_NOTIFY: if (d + 1 <= MAXDEPTH) notify(a.arg, d + 1); break;
            }
        }
    }
    void notify(int arg, int d) { int saved = depth; depth = d; subject.notify(arg); depth = saved; }
};

} // namespace

void run_c10(const Case &c) {
    int n0 = 1 + (unsigned)hget(c, 0, 0) % 6;
    int tops = 1 + (unsigned)hget(c, 1, 0) % 4;
    MAXDEPTH = (hget(c, 2, 0) & 1) ? 7 : 3;                          // deep nesting in some cases
    static const int crowd[4] = {0, 0, 12, 36};
    const int passive = crowd[(unsigned)hget(c, 3, 0) % 4];          // passive observers subscribed after the scripted ones
    if (MAXDEPTH > 3) label("deep_nesting_allowed"); if (passive) label(passive > 16 ? "crowd_over_16" : "crowd");
    std::vector<Action> acts;
    for (const Op &o : c.ops) {
        if (o.k < 0 || o.k >= NA) { count_skipped(); continue; }
        // interpretive decoding, biased towards what is reachable: owners/targets near the initially subscribed set, shallow depths
        static const int depthmap[8] = {0, 0, 0, 0, 1, 1, 2, 3};
        static const int deepmap[16] = {0, 0, 0, 1, 1, 1, 2, 2, 3, 3, 4, 4, 5, 5, 6, 7};
        Action a; a.kind = o.k; a.owner = (unsigned)o.a % (unsigned)std::min(SCRIPTED, n0 + 2); a.target = (unsigned)o.b % (unsigned)std::min(SCRIPTED, n0 + 3);
        if (passive > 0 && ((unsigned)o.b >> 3) % 4 == 3) a.target = SCRIPTED + (int)(((unsigned)o.b >> 5) % (unsigned)passive);   // sometimes one of the crowd
        a.depth = MAXDEPTH > 3 ? deepmap[(unsigned)o.c % 16] : depthmap[(unsigned)o.c % 8]; a.arg = 100 + (int)acts.size();
        if (a.kind == SELF_INVALIDATE) a.target = a.owner;
        acts.push_back(a);
        note("action %zu: observer %d at depth %d: %s target %d", acts.size() - 1, a.owner, a.depth, aname[a.kind], a.target);
    }
    // "countdown" shape: observer 0 re-notifies at every depth 0..k-1, so the nesting really reaches depth k
    if (MAXDEPTH > 3 && ((unsigned)hget(c, 4, 0) % 3) != 0) {
        int k = 3 + (int)((unsigned)hget(c, 4, 0) % 4);
        std::vector<Action> chain;
        for (int d = 0; d < k; ++d) { Action a; a.kind = NESTED_NOTIFY; a.owner = 0; a.target = 0; a.depth = d; a.arg = 900 + d; chain.push_back(a); }
        acts.insert(acts.begin(), chain.begin(), chain.end());
        label("countdown_chain");
    }
    Model m; m.acts = acts;
    auto real = std::make_unique<Real>(); real->acts = acts;
    for (int i = 0; i < n0; ++i) { m.subscribe(i); real->subscribe(i); }
    for (int i = 0; i < passive; ++i) { m.subscribe(SCRIPTED + i); real->subscribe(SCRIPTED + i); }

    for (int t = 0; t < tops; ++t) {
        m.notify(t, 0);
        real->notify(t, 0);
        note("top-level notify %d: model %zu calls so far, real %zu", t, m.log.size(), real->log.size());
        size_t n = std::min(m.log.size(), real->log.size());
        for (size_t i = 0; i < n; ++i)
            if (!(m.log[i] == real->log[i]))
                violation("ROUND", "call %zu: Subject invoked observer %d (depth %d, arg %d), the reference round invokes observer %d (depth %d, arg %d)", i,
                          real->log[i].obs, real->log[i].depth, real->log[i].arg, m.log[i].obs, m.log[i].depth, m.log[i].arg);
        if (m.log.size() != real->log.size())
            violation("ROUND", "after top-level notify %d the Subject made %zu calls, the reference rounds make %zu (first extra: observer %d depth %d)", t, real->log.size(), m.log.size(),
                      real->log.size() > n ? real->log[n].obs : m.log[n].obs, real->log.size() > n ? real->log[n].depth : m.log[n].depth);
        // handles agree with the model afterwards
        for (int i = 0; i < U; ++i) {
            Model::Rec *r = m.find(i);
            if (r && !r->valid) continue;     // invalidated, not yet lazily removed: left open
            bool v = real->handle[i].isValid();
            if (v != (r != nullptr)) violation("ROUND", "after top-level notify %d observer %d: handle isValid() = %d, reference says subscribed = %d", t, i, (int)v, (int)(r != nullptr));
        }
    }
    long fired = 0; for (auto &a : m.acts) fired += a.fired;
    label_n("actions_fired", fired); label_n("calls", (long)m.log.size());
    for (auto &a : m.acts) if (a.fired) label((std::string("fired_") + aname[a.kind]).c_str());
    int maxd = 0; for (auto &cl : m.log) maxd = std::max(maxd, cl.depth);
    if (maxd >= 1) label("nested_round"); if (maxd >= 2) label("nested_round_depth2"); if (maxd >= 5) label("nested_round_depth5");
    count_ops((long)acts.size());
    if (m.nt) nontrivial();
    real.reset();
}

} // namespace vf
