// Executor group "subject" (g++: clang 14 cannot compile tulz/observer/*.h): dispatches to
//   C05 (c05.cpp)  Subject delivers to exactly the live, unmuted observers, in order
//   C10 (c10.cpp)  Subject tolerates callbacks that change it during notify
//   C16 (c16.cpp)  Observable notifies exactly on change, with the new value
#include "../../engine/common/exec.h"
namespace vf {
const char *const exec_props = "C05 C10 C16";
void run_c05(const Case &c);
void run_c10(const Case &c);
void run_c16(const Case &c);
void exec_case(const Case &c) {
    if (c.prop == "C05") run_c05(c);
    else if (c.prop == "C10") run_c10(c);
    else run_c16(c);
}
} // namespace vf
